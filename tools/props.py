"""Per-property configuration of the check driver."""
import os
import sys

sys.path.insert(0, os.path.join(os.path.dirname(os.path.abspath(__file__)), '..', 'harness'))

COMMON_TRUSTED = [
    'Coq 8.16.1 kernel (coqc); vm_compute is used for the correspondence evaluation and closed-term examples; no native_compute',
    'translator/py2coq.py (Python ast -> Gallina, fail-closed) -- validated by the correspondence run, not verified',
    'floats modelled as exact rationals (Q); IEEE rounding not modelled; comparison tolerance 1e-9 relative',
    'no Axiom/Parameter/Admitted anywhere in /verif/coq (tools/audit.sh greps for them)',
]


def corr_fn(tag, functions, n_quick, n_thorough):
    def run(tier, seed):
        import run_corr
        n = n_quick if tier == 'quick' else n_thorough
        return run_corr.correspond(tag, functions, n, seed)
    return run


LATTICE_FUNCS = ['bbox_vflip', 'bbox_hflip', 'bbox_zflip', 'bbox_flip', 'bbox_transpose', 'bbox_rot90',
                 'keypoint_vflip', 'keypoint_hflip', 'keypoint_zflip', 'keypoint_flip', 'keypoint_transpose',
                 'keypoint_rot90', 'angle_to_2pi_range']

PROPS = {
    'C17': {
        'requires': LATTICE_FUNCS,
        'corr': corr_fn('C17', LATTICE_FUNCS, 40, 1500),
        'search': 'C17',
        'trusted_base': ['box/keypoint maps are the regenerated Gallina definitions of geometric/functional.py; '
                         'the voxel maps (numpy slicing / rot90 / transpose / pad) are checked on the implementation '
                         'by the search oracle only in this round'],
        'assumptions': ['keypoint angles are in [0, 2*pi) (what convert_keypoint_to_dicaugment produces)',
                        'pi is any positive rational in the theorems (only pi_pos is used)'],
        'level_text': 'Group laws (involutions, k then 4-k quarter turns, four turns, commutation, all-axes flip = three '
                      'flips) are theorems over the Gallina definitions regenerated from geometric/functional.py on every '
                      'run, for all boxes, keypoints (position, angle mod 2pi, scale), planes, factors and frame sizes; '
                      'voxel-level laws and pad+inverse-crop are exercised on the implementation by the search oracle.',
        'level_note': 'Trusted: Coq kernel, the translator (validated by the vm_compute correspondence on every run), '
                      'exact-rational model of floats. Voxel maps are not yet inside the proof for this property.',
    },
}

NOT_CLAIMED = {}
