(* PyNum.v -- numeric conventions shared by the generated and hand-written models.
   Python int -> Z, Python float -> Q (exact rationals, rounding not modelled),
   exceptions -> the [res] monad.  No proofs about the code live here; only the
   arithmetic vocabulary and its characterising lemmas. *)
From Coq Require Export ZArith QArith Qround Qminmax Qabs List Bool String.
From Coq Require Import Lia Lqa.
Export ListNotations.
Open Scope Q_scope.

(* ---------- exceptions ---------- *)
Inductive exn : Set :=
| ValueError | TypeError | KeyError | IndexError | AssertionError
| ZeroDivisionError | RuntimeError | NotImplementedError | UnboundLocalError
| BadDraw.   (* not a Python exception: the oracle value given for a random draw is outside the RNG's range *)

Inductive res (A : Type) : Type :=
| Ok (a : A)
| Raise (e : exn).
Arguments Ok {A} a.
Arguments Raise {A} e.

Definition bind {A B} (r : res A) (f : A -> res B) : res B :=
  match r with Ok a => f a | Raise e => Raise e end.
Notation "'do' x <- r ; k" := (bind r (fun x => k))
  (at level 200, x pattern, r at level 100, k at level 200).

Definition is_ok {A} (r : res A) : bool := match r with Ok _ => true | _ => false end.

(* ---------- boolean comparisons on Q and Z ---------- *)
Definition Qlt_bool (a b : Q) : bool := negb (Qle_bool b a).
Definition Qgt_bool (a b : Q) : bool := Qlt_bool b a.
Definition Qge_bool (a b : Q) : bool := Qle_bool b a.
Definition Qne_bool (a b : Q) : bool := negb (Qeq_bool a b).

Lemma Qle_bool_spec a b : reflect (a <= b) (Qle_bool a b).
Proof. apply iff_reflect. symmetry. apply Qle_bool_iff. Qed.
Lemma Qlt_bool_spec a b : reflect (a < b) (Qlt_bool a b).
Proof.
  unfold Qlt_bool. destruct (Qle_bool_spec b a) as [H|H]; constructor; lra.
Qed.
Lemma Qeq_bool_spec a b : reflect (a == b) (Qeq_bool a b).
Proof. apply iff_reflect. symmetry. apply Qeq_bool_iff. Qed.
Lemma Qge_bool_spec a b : reflect (b <= a) (Qge_bool a b).
Proof. unfold Qge_bool. apply Qle_bool_spec. Qed.
Lemma Qgt_bool_spec a b : reflect (b < a) (Qgt_bool a b).
Proof. unfold Qgt_bool. apply Qlt_bool_spec. Qed.
Lemma Qne_bool_spec a b : reflect (~ a == b) (Qne_bool a b).
Proof. unfold Qne_bool. destruct (Qeq_bool_spec a b); constructor; tauto. Qed.

From Coq Require Import Morphisms.
Global Instance Qlt_bool_comp : Proper (Qeq ==> Qeq ==> eq) Qlt_bool.
Proof. intros a a' E b b' F. unfold Qlt_bool. rewrite E, F. reflexivity. Qed.
Global Instance Qge_bool_comp : Proper (Qeq ==> Qeq ==> eq) Qge_bool.
Proof. intros a a' E b b' F. unfold Qge_bool. rewrite E, F. reflexivity. Qed.
Global Instance Qgt_bool_comp : Proper (Qeq ==> Qeq ==> eq) Qgt_bool.
Proof. intros a a' E b b' F. unfold Qgt_bool. rewrite E, F. reflexivity. Qed.
Global Instance Qne_bool_comp : Proper (Qeq ==> Qeq ==> eq) Qne_bool.
Proof. intros a a' E b b' F. unfold Qne_bool. rewrite E, F. reflexivity. Qed.

(* ---------- int(), round(), floor ---------- *)
(* Python int(x): truncation toward zero *)
Definition py_int (q : Q) : Z := if Qle_bool 0 q then Qfloor q else Qceiling q.

(* Python round(x) / np.round: half to even *)
Definition py_round (q : Q) : Z :=
  let f := Qfloor q in
  let r := q - inject_Z f in
  if Qlt_bool r (1#2) then f
  else if Qlt_bool (1#2) r then (f + 1)%Z
  else if Z.even f then f else (f + 1)%Z.

Lemma py_int_nonneg q : 0 <= q -> inject_Z (py_int q) <= q /\ q < inject_Z (py_int q) + 1.
Proof.
  intros H. unfold py_int. destruct (Qle_bool_spec 0 q); [|tauto].
  split; [apply Qfloor_le|]. pose proof (Qlt_floor q) as L.
  rewrite inject_Z_plus in L. exact L.
Qed.

Lemma py_int_nonneg_ge0 q : 0 <= q -> (0 <= py_int q)%Z.
Proof.
  intros H. unfold py_int. destruct (Qle_bool_spec 0 q); [|tauto].
  change 0%Z with (Qfloor 0). apply Qfloor_resp_le. exact H.
Qed.

Lemma py_int_Z z : py_int (inject_Z z) = z.
Proof.
  unfold py_int. destruct (Qle_bool 0 (inject_Z z));
  [apply Qfloor_Z | apply Qceiling_Z].
Qed.

(* ---------- pi and angles ---------- *)
(* The exact rational value of the IEEE double math.pi.  Theorems use only
   [pi_pos]; the concrete value is used by the correspondence runs. *)
Definition pi : Q := 884279719003555 # 281474976710656.
Definition two_pi : Q := 2 * pi.
Lemma pi_pos : 0 < pi.  Proof. reflexivity. Qed.
Lemma two_pi_pos : 0 < two_pi.  Proof. reflexivity. Qed.
Global Opaque pi two_pi.

(* Python float modulo by a positive number: a - m*floor(a/m), in [0, m) *)
Definition Qmodpos (a m : Q) : Q := a - m * inject_Z (Qfloor (a / m)).
Definition mod2pi (a : Q) : Q := Qmodpos a two_pi.

Lemma Qmodpos_range a m : 0 < m -> 0 <= Qmodpos a m /\ Qmodpos a m < m.
Proof.
  intros Hm. unfold Qmodpos.
  pose proof (Qfloor_le (a / m)) as H1.
  pose proof (Qlt_floor (a / m)) as H2. rewrite inject_Z_plus in H2.
  set (f := inject_Z (Qfloor (a / m))) in *.
  assert (E : a == (a / m) * m) by (field; lra).
  split.
  - assert (f * m <= (a / m) * m) by (apply Qmult_le_compat_r; lra). lra.
  - assert ((a / m) * m < (f + inject_Z 1) * m) by (apply Qmult_lt_compat_r; lra).
    change (inject_Z 1) with 1 in *. lra.
Qed.

Lemma Qmodpos_id a m : 0 <= a -> a < m -> Qmodpos a m == a.
Proof.
  intros H0 H1. unfold Qmodpos.
  assert (Hm : 0 < m) by lra.
  assert (F : Qfloor (a / m) = 0%Z).
  { assert (L : 0 <= a / m) by (apply Qle_shift_div_l; lra).
    assert (U : a / m < 1) by (apply Qlt_shift_div_r; lra).
    pose proof (Qfloor_le (a / m)) as A.
    pose proof (Qlt_floor (a / m)) as B. rewrite inject_Z_plus in B.
    change (inject_Z 1) with 1 in B.
    assert (Z1 : (Qfloor (a / m) < 1)%Z).
    { apply Qlt_not_le in U. apply Z.nle_gt. intro C. apply U.
      eapply Qle_trans; [|exact A]. change 1 with (inject_Z 1).
      rewrite <- Zle_Qle. exact C. }
    assert (Z0 : (-1 < Qfloor (a / m))%Z).
    { apply Z.nle_gt. intro C.
      assert (inject_Z (Qfloor (a / m)) <= inject_Z (-1)) by (rewrite <- Zle_Qle; exact C).
      change (inject_Z (-1)) with (-1) in *. lra. }
    lia. }
  rewrite F. change (inject_Z 0) with 0. ring.
Qed.

Lemma Qmodpos_shift a m (k : Z) : 0 < m -> Qmodpos (a + inject_Z k * m) m == Qmodpos a m.
Proof.
  intros Hm. unfold Qmodpos.
  assert (E : (a + inject_Z k * m) / m == a / m + inject_Z k) by (field; lra).
  assert (F : Qfloor ((a + inject_Z k * m) / m) = (Qfloor (a / m) + k)%Z).
  { rewrite E.
    pose proof (Qfloor_le (a / m)) as A.
    pose proof (Qlt_floor (a / m)) as B. rewrite inject_Z_plus in B.
    change (inject_Z 1) with 1 in B.
    pose proof (Qfloor_le (a / m + inject_Z k)) as A'.
    pose proof (Qlt_floor (a / m + inject_Z k)) as B'. rewrite inject_Z_plus in B'.
    change (inject_Z 1) with 1 in B'.
    set (f := Qfloor (a / m)) in *. set (g := Qfloor (a / m + inject_Z k)) in *.
    assert (G1 : inject_Z g < inject_Z (f + k + 1)) by (rewrite !inject_Z_plus; change (inject_Z 1) with 1; lra).
    assert (G2 : inject_Z (f + k) < inject_Z (g + 1)) by (rewrite !inject_Z_plus; change (inject_Z 1) with 1; lra).
    rewrite <- Zlt_Qlt in G1, G2. lia. }
  rewrite F. rewrite inject_Z_plus. ring.
Qed.

Lemma Qmodpos_compat a b m : a == b -> Qmodpos a m == Qmodpos b m.
Proof.
  intros E. unfold Qmodpos.
  assert (Qfloor (a / m) = Qfloor (b / m)) as ->; [|lra].
  apply Qfloor_comp. rewrite E. reflexivity.
Qed.

(* mod2pi of (x + mod2pi y) = mod2pi (x + y): reduce the inner normalisation *)
Lemma Qmodpos_inner a b m : 0 < m -> Qmodpos (a + Qmodpos b m) m == Qmodpos (a + b) m.
Proof.
  intros Hm. unfold Qmodpos at 2.
  set (k := Qfloor (b / m)).
  assert (E : a + (b - m * inject_Z k) == (a + b) + inject_Z (- k) * m)
    by (rewrite inject_Z_opp; ring).
  rewrite (Qmodpos_compat _ _ m E). apply Qmodpos_shift. exact Hm.
Qed.

Lemma Qmodpos_neg_inner a b m : 0 < m -> Qmodpos (a - Qmodpos b m) m == Qmodpos (a - b) m.
Proof.
  intros Hm. unfold Qmodpos at 2.
  set (k := Qfloor (b / m)).
  assert (E : a - (b - m * inject_Z k) == (a - b) + inject_Z k * m) by ring.
  rewrite (Qmodpos_compat _ _ m E). apply Qmodpos_shift. exact Hm.
Qed.

Lemma Qmodpos_inner_l b c m : 0 < m -> Qmodpos (Qmodpos b m + c) m == Qmodpos (b + c) m.
Proof.
  intros Hm.
  rewrite (Qmodpos_compat (Qmodpos b m + c) (c + Qmodpos b m) m) by ring.
  rewrite Qmodpos_inner by exact Hm. apply Qmodpos_compat. ring.
Qed.
Lemma Qmodpos_inner_sub_l b c m : 0 < m -> Qmodpos (Qmodpos b m - c) m == Qmodpos (b - c) m.
Proof.
  intros Hm.
  rewrite (Qmodpos_compat (Qmodpos b m - c) ((- c) + Qmodpos b m) m) by ring.
  rewrite Qmodpos_inner by exact Hm. apply Qmodpos_compat. ring.
Qed.
Lemma Qmodpos_inner_neg b m : 0 < m -> Qmodpos (- Qmodpos b m) m == Qmodpos (- b) m.
Proof.
  intros Hm.
  rewrite (Qmodpos_compat (- Qmodpos b m) (0 - Qmodpos b m) m) by ring.
  rewrite Qmodpos_neg_inner by exact Hm. apply Qmodpos_compat. ring.
Qed.
Lemma Qmodpos_eq_shift x a m (k : Z) :
  0 < m -> x == a + inject_Z k * m -> 0 <= a -> a < m -> Qmodpos x m == a.
Proof.
  intros Hm E H0 H1. rewrite (Qmodpos_compat _ _ m E).
  rewrite Qmodpos_shift by exact Hm. apply Qmodpos_id; assumption.
Qed.
Lemma Qmodpos_idem a m : 0 < m -> Qmodpos (Qmodpos a m) m == Qmodpos a m.
Proof. intros Hm. apply Qmodpos_id; apply Qmodpos_range; exact Hm. Qed.

Definition radians (d : Q) : Q := d * pi / 180.
Definition degrees (r : Q) : Q := r * 180 / pi.

Global Instance radians_comp : Proper (Qeq ==> Qeq) radians.
Proof. intros a b E. unfold radians. rewrite E. reflexivity. Qed.
Global Instance degrees_comp : Proper (Qeq ==> Qeq) degrees.
Proof. intros a b E. unfold degrees. rewrite E. reflexivity. Qed.

(* np.clip(x, lo, hi) = min(max(x, lo), hi) *)
Definition clip (x lo hi : Q) : Q := Qmin (Qmax x lo) hi.
(* np.isclose(v, t) with default rtol=1e-5, atol=1e-8 *)
Definition isclose (v t : Q) : bool :=
  Qle_bool (Qabs (v - t)) ((1 # 100000000) + (1 # 100000) * Qabs t).

Lemma clip_range x lo hi : lo <= hi -> lo <= clip x lo hi /\ clip x lo hi <= hi.
Proof.
  intros H. unfold clip.
  destruct (Q.max_spec x lo) as [[? E]|[? E]]; rewrite E;
  destruct (Q.min_spec lo hi) as [[? E2]|[? E2]];
  destruct (Q.min_spec x hi) as [[? E3]|[? E3]];
  try rewrite E2; try rewrite E3; split; lra.
Qed.

Lemma clip_id x lo hi : lo <= x -> x <= hi -> clip x lo hi == x.
Proof.
  intros A B. unfold clip.
  destruct (Q.max_spec x lo) as [[? E]|[? E]]; rewrite E;
  [destruct (Q.min_spec lo hi) as [[? E2]|[? E2]]
  |destruct (Q.min_spec x hi) as [[? E2]|[? E2]]]; rewrite E2; lra.
Qed.

(* ---------- annotation tuples ---------- *)
Definition box : Type := (Q * Q * Q * Q * Q * Q)%type.
Definition kp  : Type := (Q * Q * Q * Q * Q)%type.
Definition coords6 : Type := (Z * Z * Z * Z * Z * Z)%type.

Definition box_eq (a b : box) : Prop :=
  let '(a1,a2,a3,a4,a5,a6) := a in let '(b1,b2,b3,b4,b5,b6) := b in
  a1 == b1 /\ a2 == b2 /\ a3 == b3 /\ a4 == b4 /\ a5 == b5 /\ a6 == b6.
Definition kp_eq (a b : kp) : Prop :=
  let '(a1,a2,a3,a4,a5) := a in let '(b1,b2,b3,b4,b5) := b in
  a1 == b1 /\ a2 == b2 /\ a3 == b3 /\ a4 == b4 /\ a5 == b5.

Definition box_map (f : Q -> Q) (b : box) : box :=
  let '(a1,a2,a3,a4,a5,a6) := b in (f a1, f a2, f a3, f a4, f a5, f a6).
Definition box_all (f : Q -> bool) (b : box) : bool :=
  let '(a1,a2,a3,a4,a5,a6) := b in f a1 && f a2 && f a3 && f a4 && f a5 && f a6.
Definition box_any (f : Q -> bool) (b : box) : bool :=
  let '(a1,a2,a3,a4,a5,a6) := b in f a1 || f a2 || f a3 || f a4 || f a5 || f a6.

Definition res_box_eq (a b : res box) : Prop :=
  match a, b with
  | Ok x, Ok y => box_eq x y
  | Raise e, Raise e' => e = e'
  | _, _ => False
  end.

(* string equality used by generated code *)
Definition streq (a b : string) : bool := String.eqb a b.

(* Tactics shared by proofs over generated code *)
Ltac qb_case :=
  match goal with
  | |- context [Qle_bool ?a ?b] => destruct (Qle_bool_spec a b)
  | |- context [Qlt_bool ?a ?b] => destruct (Qlt_bool_spec a b)
  | |- context [Qge_bool ?a ?b] => destruct (Qge_bool_spec a b)
  | |- context [Qgt_bool ?a ?b] => destruct (Qgt_bool_spec a b)
  | |- context [Qeq_bool ?a ?b] => destruct (Qeq_bool_spec a b)
  | |- context [Qne_bool ?a ?b] => destruct (Qne_bool_spec a b)
  end.
