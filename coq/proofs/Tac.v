(* Tac.v -- tactics shared by the proof files (no statements about the code). *)
From DV.lib Require Import PyNum PyRt.
From Coq Require Import Lqa Lia.
Open Scope Q_scope.

(* split hypotheses of the shape In x [a;b;c] into the concrete cases *)
Ltac in_cases H :=
  repeat (destruct H as [H|H]; [subst|]); try (exfalso; exact H).

Ltac destruct_box b :=
  let a1 := fresh "x1" in let a2 := fresh "y1" in let a3 := fresh "z1" in
  let a4 := fresh "x2" in let a5 := fresh "y2" in let a6 := fresh "z2" in
  destruct b as [[[[[a1 a2] a3] a4] a5] a6].
Ltac destruct_kp k :=
  let a1 := fresh "kx" in let a2 := fresh "ky" in let a3 := fresh "kz" in
  let a4 := fresh "ka" in let a5 := fresh "ks" in
  destruct k as [[[[a1 a2] a3] a4] a5].

Ltac box_solve := unfold box_eq; cbn; repeat split; lra.
Ltac kp_solve := unfold kp_eq; cbn; repeat split; try lra.

Lemma Zpos_inject_nonzero (z : Z) : (0 < z)%Z -> ~ inject_Z z == 0.
Proof.
  intros H E. change 0 with (inject_Z 0) in E. rewrite inject_Z_injective in E. lia.
Qed.
Lemma Zpos_inject_pos (z : Z) : (0 < z)%Z -> 0 < inject_Z z.
Proof. intros H. change 0 with (inject_Z 0). rewrite <- Zlt_Qlt. exact H. Qed.

Lemma Zleb_pos_false z : (0 < z)%Z -> Z.leb z 0 = false.
Proof. intros. apply Z.leb_gt. assumption. Qed.

Lemma bind_ok {A B} (r : res A) (f : A -> res B) v :
  bind r f = Ok v -> exists a, r = Ok a /\ f a = Ok v.
Proof. destruct r; cbn; intros H; [eauto | discriminate]. Qed.

(* decompose a hypothesis [bind r f = Ok v] *)
Ltac bind_inv H :=
  let a := fresh "a" in let Ha := fresh "Hr" in
  apply bind_ok in H; destruct H as [a [Ha H]].

Lemma Zleb_false_pos z : Z.leb z 0 = false -> (0 < z)%Z.
Proof. intros H. apply Z.leb_gt in H. exact H. Qed.

(* exhaustively decompose hypotheses  bind r f = Ok v  /  Ok a = Ok b *)
Ltac res_inv :=
  repeat match goal with
  | H : bind _ _ = Ok _ |- _ =>
      let a := fresh "a" in let Ha := fresh "Hr" in
      apply bind_ok in H; destruct H as [a [Ha H]]; cbn beta in H
  | H : (match ?a with pair _ _ => _ end) = Ok _ |- _ => is_var a; destruct a
  | H : Ok _ = Ok _ |- _ => inversion H; subst; clear H
  | H : Raise _ = Ok _ |- _ => discriminate H
  end.

Lemma inject_Z_sub a b : inject_Z (a - b) == inject_Z a - inject_Z b.
Proof. unfold Z.sub. rewrite inject_Z_plus, inject_Z_opp. reflexivity. Qed.

(* push inject_Z through +, -, *, and turn inject_Z of literals into rational literals *)
Ltac push_inj :=
  repeat (rewrite inject_Z_sub || rewrite inject_Z_plus || rewrite inject_Z_mult || rewrite inject_Z_opp);
  repeat match goal with
  | |- context [inject_Z (Zpos ?p)] => change (inject_Z (Zpos p)) with (Zpos p # 1)
  | |- context [inject_Z (Zneg ?p)] => change (inject_Z (Zneg p)) with (Zneg p # 1)
  | |- context [inject_Z Z0] => change (inject_Z Z0) with 0
  end.

(* lra on Q does not see through division by a literal: turn  x / 2  into  x * (1#2) *)
Ltac div2 :=
  unfold Qdiv in *; change (/ 2) with (1 # 2) in *.
