(* class-table facts used by C12; proved by computation over the regenerated tables *)
From Coq Require Import List String Bool.
Import ListNotations.
From DV.gen Require Import Gen_classtab.
From DV.proofs Require Import ClassFacts.
Open Scope string_scope.

Lemma targets_ok : forallb (fun c => image_only_targets_ok c && dual_targets_ok c) class_table = true.
Proof. vm_compute. reflexivity. Qed.
