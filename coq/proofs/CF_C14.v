(* class-table facts used by C14; proved by computation over the regenerated tables *)
From Coq Require Import List String Bool.
Import ListNotations.
From DV.gen Require Import Gen_classtab.
From DV.proofs Require Import ClassFacts.
Open Scope string_scope.

Lemma persist_complete_partial :
  forallb (fun c => persist_complete c || mem (c_name c) c14_known) class_table = true.
Proof. vm_compute. reflexivity. Qed.
Lemma todict_ok : forallb todict_row_ok todict_table = true.
Proof. vm_compute. reflexivity. Qed.
Lemma table_nonempty : Nat.leb 40 (List.length class_table) = true /\ Nat.leb 300 functions_analysed = true.
Proof. vm_compute. split; reflexivity. Qed.
Lemma base_args_ok : base_args_table = [("always_apply", "always_apply"); ("p", "p")].
Proof. vm_compute. reflexivity. Qed.
