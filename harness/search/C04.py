"""C04 failing-input search: the boxes returned by Compose are valid, in the requested format,
and are exactly the clipped remainders that meet every threshold (inclusive; visibility against
the box before that clipping step); boxes leaving the frame never make the call raise."""
import random

import numpy as np

import geom
import implrun as R
import spatial as S

FORMATS = ['coco_3d', 'pascal_voc_3d', 'yolo_3d', 'dicaugment_3d']


def to_format(b, fmt, shape):
    h, w, d = shape
    x1, y1, z1, x2, y2, z2 = b
    if fmt == 'pascal_voc_3d':
        return (x1, y1, z1, x2, y2, z2)
    if fmt == 'coco_3d':
        return (x1, y1, z1, x2 - x1, y2 - y1, z2 - z1)
    if fmt == 'yolo_3d':
        return ((x1 + x2) / 2 / w, (y1 + y2) / 2 / h, (z1 + z2) / 2 / d, (x2 - x1) / w, (y2 - y1) / h, (z2 - z1) / d)
    return (x1 / w, y1 / h, z1 / d, x2 / w, y2 / h, z2 / d)


def from_format(b, fmt, shape):
    h, w, d = shape
    if fmt == 'pascal_voc_3d':
        return tuple(b[:6])
    if fmt == 'coco_3d':
        return (b[0], b[1], b[2], b[0] + b[3], b[1] + b[4], b[2] + b[5])
    if fmt == 'yolo_3d':
        return ((b[0] - b[3] / 2) * w, (b[1] - b[4] / 2) * h, (b[2] - b[5] / 2) * d,
                (b[0] + b[3] / 2) * w, (b[1] + b[4] / 2) * h, (b[2] + b[5] / 2) * d)
    return (b[0] * w, b[1] * h, b[2] * d, b[3] * w, b[4] * h, b[5] * d)


class IllConditioned(Exception):
    """a decision quantity sits on its threshold although the float arithmetic of this frame is
    not exact (frame extents that are not powers of two): both outcomes are round-off"""


def step_filter(boxes, shape, thr, exact):
    """clip-then-threshold in pixel space (the property text), boxes = (pixel box, payload)"""
    out = []
    # float arithmetic is exact only while EVERY frame the boxes are normalised by is a power of two: a crop or
    # pad inside the pipeline changes the frame
    exact = exact and all(n > 0 and n & (n - 1) == 0 for n in shape)
    for b, pay in boxes:
        cb = geom.clip_box(b, shape)
        w, h, d = cb[3] - cb[0], cb[4] - cb[1], cb[5] - cb[2]
        if not exact:
            tarea0 = (b[3] - b[0]) * (b[4] - b[1])
            qs = [(w, 0), (h, 0), (d, 0), (w, thr['min_width']), (h, thr['min_height']), (d, thr['min_depth']),
                  (w * h, thr['min_planar_area']), (w * h * d, thr['min_volume'])]
            if tarea0 > 0 and b[5] > b[2]:
                qs += [(w * h / tarea0, thr['min_area_visibility']),
                       (w * h * d / (tarea0 * (b[5] - b[2])), thr['min_volume_visibility'])]
            for q, t in qs:
                if (t != 0 or q != 0) and abs(q - t) <= 1e-7 * max(1.0, abs(q)) and not (t == 0 and q > 1e-7):
                    raise IllConditioned()
            # a box that TOUCHES the frame from outside has extent exactly 0 here, but the implementation's
            # normalise / denormalise round trip leaves +-1 ulp: kept or dropped is round-off
            for lo_, hi_, n_ in ((b[0], b[3], shape[1]), (b[1], b[4], shape[0]), (b[2], b[5], shape[2])):
                if abs(hi_) <= 1e-9 * max(1.0, n_) or abs(lo_ - n_) <= 1e-9 * max(1.0, n_):
                    raise IllConditioned()
        if w <= 0 or h <= 0 or d <= 0:
            continue
        area, vol = w * h, w * h * d
        tarea = (b[3] - b[0]) * (b[4] - b[1])
        tvol = tarea * (b[5] - b[2])
        ok = (area >= thr['min_planar_area'] and vol >= thr['min_volume']
              and area / tarea >= thr['min_area_visibility'] and vol / tvol >= thr['min_volume_visibility']
              and w >= thr['min_width'] and h >= thr['min_height'] and d >= thr['min_depth'])
        if ok:
            out.append((cb, pay))
    return out


def check(case, viol):
    shape = tuple(case['shape'])
    specs = case['pipeline']
    fmt = case['format']
    thr = case['thresholds']
    boxes_in = [tuple(to_format(b[:6], fmt, shape)) + (b[6],) for b in case['bboxes']]
    # a top-level item may be a container holding the transform as its only, always-firing child: the pipeline is
    # the same one, and the per-transform check runs after the container as it does after the bare transform
    wrap = case.get('wrap') or [None] * len(specs)
    run_specs = [sp if w is None else {'op': w, 'children': [sp], 'args': dict({'p': 1.0}, **({'n': 1} if w == 'SomeOf' else {}))}
                 for sp, w in zip(specs, wrap)]
    try:
        res = S.run(run_specs, shape, case['seed'], boxes=boxes_in, bbox_format=fmt,
                    bbox_kw=dict(thr, check_each_transform=case['each']), more_boxes=bool(case.get('more_boxes')),
                    rebuilt=bool(case.get('rebuilt')))
    except Exception as e:  # noqa
        viol.append({'site': 'C04:raises:%s' % '+'.join(s['cls'] for s in specs), 'case': case,
                     'observed': '%s: %s' % (type(e).__name__, e), 'expected': 'boxes clipped or dropped, no exception'})
        return
    # expected, step by step (each step's voxel map derived from a labelled volume)
    exact = all(n & (n - 1) == 0 for n in shape)
    try:
        return check_expected(case, viol, res, shape, specs, fmt, thr, exact)
    except IllConditioned:
        case['_skipped'] = True
        return


def check_expected(case, viol, res, shape, specs, fmt, thr, exact):
    cur = [(tuple(b[:6]), b[6]) for b in case['bboxes']]
    cur_shape = shape
    if case['each']:
        for sp in specs:
            r1 = S.run([sp], cur_shape, case['seed'])
            # NOTE: same seed => same draws only for single-draw transforms; pipelines here are deterministic
            lat = geom.derive_lattice(r1['image'], cur_shape)
            if lat is None or lat['ambiguous']:
                return
            cur = [(geom.lat_box(lat, b), pay) for b, pay in cur]
            cur_shape = r1['image'].shape[:3]
            exact = exact and all(n > 0 and n & (n - 1) == 0 for n in cur_shape)     # sticky: round-off is carried on
            cur = step_filter(cur, cur_shape, thr, exact)
        cur = step_filter(cur, cur_shape, thr, exact)      # postprocess filters once more
    else:
        lat = geom.derive_lattice(res['image'], shape)
        if lat is None or lat['ambiguous']:
            return
        cur = [(geom.lat_box(lat, b), pay) for b, pay in cur]
        cur_shape = res['image'].shape[:3]
        cur = step_filter(cur, cur_shape, thr, exact)
    exp = [tuple(to_format(b, fmt, cur_shape)) + (pay,) for b, pay in cur]
    got = res['bboxes']
    ok = len(got) == len(exp) and all(R.seq_close(g[:6], e[:6], 1e-7) and g[6] == e[6] for g, e in zip(got, exp))
    if ok and 'bboxes2' in res:
        # the additional box target: filtered on the same schedule, hence the same boxes
        got2 = res['bboxes2']
        if not (len(got2) == len(exp) and all(R.seq_close(g[:6], e[:6], 1e-7) and g[6] == e[6] for g, e in zip(got2, exp))):
            viol.append({'site': 'C04:%s:%s:additional-box-target' % (fmt, '+'.join(s['cls'] for s in specs)), 'case': case,
                         'observed': [list(map(float, g[:6])) + [g[6]] for g in got2],
                         'expected': [list(map(float, e[:6])) + [e[6]] for e in exp]})
            return
    # validity of everything returned
    for g in got:
        px = from_format(g, fmt, cur_shape)
        h, w, d = cur_shape
        if not (-1e-9 <= px[0] < px[3] <= w + 1e-9 and -1e-9 <= px[1] < px[4] <= h + 1e-9 and -1e-9 <= px[2] < px[5] <= d + 1e-9):
            ok = False
    if not ok:
        viol.append({'site': 'C04:%s:%s' % (fmt, '+'.join(s['cls'] for s in specs)), 'case': case,
                     'observed': [list(map(float, g[:6])) + [g[6]] for g in got],
                     'expected': [list(map(float, e[:6])) + [e[6]] for e in exp]})


CONTAINERS = ['Sequential', 'OneOf', 'SomeOf', 'Compose']


def gen_case(rng, force_choice=None, force_each=None, force_wrap=None, empty=False):
    dims = rng.sample([4, 8, 16, 2], 3) if rng.random() < 0.6 else rng.sample([4, 6, 8, 10, 12, 16], 3)
    if force_choice is not None:
        dims = rng.sample([6, 10, 12, 16], 3)      # pairwise different extents: an axis confusion shows
    H, W, D = dims
    boxes = []
    for i in range(rng.randint(1, 4)):
        def seg(n):
            a = rng.randint(0, n - 1)
            return float(a), float(rng.randint(a + 1, n))
        (x1, x2), (y1, y2), (z1, z2) = seg(W), seg(H), seg(D)
        boxes.append((x1, y1, z1, x2, y2, z2, 'b%d' % i))
    # a crop window that cuts boxes along 1..3 axes
    k = rng.randint(1, 3)
    axes = rng.sample([0, 1, 2], k)
    win = {'x_min': 0, 'y_min': 0, 'z_min': 0, 'x_max': W, 'y_max': H, 'z_max': D}
    for a in axes:
        n = (W, H, D)[a]
        lo = rng.randint(0, n - 1)
        hi = rng.randint(lo + 1, n)
        nm = 'xyz'[a]
        win[nm + '_min'], win[nm + '_max'] = lo, hi
    specs = [S.L('Crop', **win)]
    if rng.random() < 0.5:
        specs.append(rng.choice([S.L('HorizontalFlip'), S.L('Transpose'), S.L('SliceFlip'),
                                 S.L('PadIfNeeded', min_height=H + 2, min_width=W + 1, min_depth=D + 3)]))
    if empty:
        # a pipeline in which nothing runs: the thresholds are still applied (once, against the input frame)
        win = {'x_min': 0, 'y_min': 0, 'z_min': 0, 'x_max': W, 'y_max': H, 'z_max': D}
        specs = []
    if force_wrap is not None:
        # the crop inside a container, then a transform that brings the cut-off part of the frame back
        specs = [specs[0], S.L('PadIfNeeded', min_height=H + 2, min_width=W + 1, min_depth=D + 3)]
    thr = {'min_planar_area': 0.0, 'min_volume': 0.0, 'min_area_visibility': 0.0, 'min_volume_visibility': 0.0,
           'min_width': 0.0, 'min_height': 0.0, 'min_depth': 0.0}
    # boundary-equal thresholds: taken from the clipped remainder of one of the boxes
    def clipped(bb):
        return (max(0.0, min(bb[3], win['x_max']) - max(bb[0], win['x_min'])), max(0.0, min(bb[4], win['y_max']) - max(bb[1], win['y_min'])),
                max(0.0, min(bb[5], win['z_max']) - max(bb[2], win['z_min'])))
    inside = [bb for bb in boxes if min(clipped(bb)) >= 1.0]
    b = rng.choice(inside if (inside and force_choice is not None) else boxes)
    cw = max(0.0, min(b[3], win['x_max']) - max(b[0], win['x_min']))
    chh = max(0.0, min(b[4], win['y_max']) - max(b[1], win['y_min']))
    cd = max(0.0, min(b[5], win['z_max']) - max(b[2], win['z_min']))
    choice = rng.choice(['none', 'width', 'height', 'depth', 'area', 'volume', 'avis', 'vvis', 'above',
                         'mid-width', 'mid-height', 'mid-depth', 'all-three', 'all-three'])
    if force_choice is not None:
        choice = force_choice
    # thresholds strictly between the extents that occur (well-conditioned on every frame), one axis at a time and
    # all three axes with different values: a threshold applied to the wrong axis then changes the outcome
    off = rng.choice([-0.37, 0.37])
    if choice == 'mid-width':
        thr['min_width'] = max(0.0, cw + off)
    elif choice == 'mid-height':
        thr['min_height'] = max(0.0, chh + off)
    elif choice == 'mid-depth':
        thr['min_depth'] = max(0.0, cd + off)
    elif choice == 'all-three':
        vals = rng.sample([0.63, 1.37, 2.37, 3.63, 4.37], 3)
        thr['min_width'], thr['min_height'], thr['min_depth'] = vals
    if choice == 'width':
        thr['min_width'] = cw
    elif choice == 'height':
        thr['min_height'] = chh
    elif choice == 'depth':
        thr['min_depth'] = cd
    elif choice == 'area':
        thr['min_planar_area'] = cw * chh
    elif choice == 'volume':
        thr['min_volume'] = cw * chh * cd
    elif choice == 'avis':
        thr['min_area_visibility'] = rng.choice([0.25, 0.5, 0.75])
    elif choice == 'vvis':
        thr['min_volume_visibility'] = rng.choice([0.25, 0.5, 0.75])
    elif choice == 'above':
        thr['min_width'] = cw + 0.5
    wrap = [rng.choice(CONTAINERS) if rng.random() < 0.3 else None for _ in specs]
    if force_wrap is not None:
        wrap = [force_wrap] + [None] * (len(specs) - 1)
    return {'shape': [H, W, D], 'bboxes': boxes, 'pipeline': specs, 'wrap': wrap, 'more_boxes': force_wrap is not None or rng.random() < 0.3,
            'format': rng.choice(FORMATS),
            'thresholds': thr, 'each': (rng.random() < 0.5) if force_each is None else force_each, 'seed': R.pick_seed(rng)}


def gen_forced(rng, choice, each):
    """sizeable boxes in a frame with pairwise different extents, a gentle crop (most of every box survives), and a
    size threshold strictly between extents that occur: a threshold applied to the wrong axis, or an extent measured
    in the wrong frame, changes which boxes come back"""
    H, W, D = rng.sample([8, 12, 16, 20], 3)
    boxes = []
    for i in range(4):
        ex = [rng.randint(3, 7) for _ in range(3)]
        x1, y1, z1 = rng.randint(0, W - ex[0]), rng.randint(0, H - ex[1]), rng.randint(0, D - ex[2])
        boxes.append((float(x1), float(y1), float(z1), float(x1 + ex[0]), float(y1 + ex[1]), float(z1 + ex[2]), 'b%d' % i))
    win = {'x_min': rng.randint(0, 2), 'y_min': rng.randint(0, 2), 'z_min': rng.randint(0, 2),
           'x_max': W - rng.randint(0, 2), 'y_max': H - rng.randint(0, 2), 'z_max': D - rng.randint(0, 2)}
    specs = [S.L('Crop', **win)]
    if rng.random() < 0.4:
        specs.append(rng.choice([S.L('HorizontalFlip'), S.L('SliceFlip'), S.L('NoOp')]))
    thr = {'min_planar_area': 0.0, 'min_volume': 0.0, 'min_area_visibility': 0.0, 'min_volume_visibility': 0.0,
           'min_width': 0.0, 'min_height': 0.0, 'min_depth': 0.0}

    def clip(bb, lo, hi, a):
        return max(0.0, min(bb[a + 3], hi) - max(bb[a], lo))
    ws = sorted(clip(b, win['x_min'], win['x_max'], 0) for b in boxes)
    hs = sorted(clip(b, win['y_min'], win['y_max'], 1) for b in boxes)
    ds = sorted(clip(b, win['z_min'], win['z_max'], 2) for b in boxes)
    mid = lambda v: (v[1] + v[2]) / 2.0 + 0.13          # between the second and third smallest extent
    if choice in ('mid-width', 'all-three'):
        thr['min_width'] = mid(ws)
    if choice in ('mid-height', 'all-three'):
        thr['min_height'] = mid(hs)
    if choice in ('mid-depth', 'all-three'):
        thr['min_depth'] = mid(ds)
    return {'shape': [H, W, D], 'bboxes': boxes, 'pipeline': specs, 'format': rng.choice(FORMATS),
            'thresholds': thr, 'each': each, 'seed': R.pick_seed(rng)}


def gen_visibility_split(rng, which, fmt):
    """a box cut along z only: its planar (xy) visibility stays 1 while its volume visibility drops to 0.4, so exactly
    one of the two visibility thresholds (set to 0.5, the other left at 0) removes it -- the two thresholds are
    distinguishable, also after the pipeline has been through its serialised form; power-of-two frame: exact"""
    H, W, D = rng.sample([8, 16, 32], 3)
    cut = (1.0, 2.0, D / 4.0, W - 1.0, H - 2.0, D * 7 / 8.0, 'cut')
    whole = (0.0, 1.0, 0.0, W / 2.0, H / 2.0, D / 4.0, 'whole')
    thr = {'min_planar_area': 0.0, 'min_volume': 0.0, 'min_area_visibility': 0.0, 'min_volume_visibility': 0.0,
           'min_width': 0.0, 'min_height': 0.0, 'min_depth': 0.0}
    thr['min_volume_visibility' if which == 'vvis' else 'min_area_visibility'] = 0.5
    specs = [S.L('Crop', x_min=0, y_min=0, z_min=0, x_max=W, y_max=H, z_max=D // 2)]
    return {'shape': [H, W, D], 'bboxes': [cut, whole], 'pipeline': specs, 'format': fmt, 'thresholds': thr,
            'each': rng.random() < 0.5, 'seed': R.pick_seed(rng)}


def run(seed=0, tier='quick', hints=None, broken=False):
    rng = random.Random(seed * 7919 + 4)
    n = 120 if tier == 'quick' else 4000
    if broken:
        n *= 3
    viol, seen = [], set()
    # every kind of well-conditioned size threshold under both filtering schedules, a few times each
    forced = [(c, e) for c in ('mid-width', 'mid-height', 'mid-depth', 'all-three') for e in (True, False)] * (6 if tier == 'quick' else 30)
    wrapped = [(k, ch) for k in CONTAINERS for ch in ('none', 'vvis', 'avis')] * (2 if tier == 'quick' else 20)
    idle = [(ch, e) for ch in ('above', 'mid-width', 'mid-height', 'mid-depth', 'all-three', 'volume') for e in (True, False)] * (1 if tier == 'quick' else 10)
    for ch, e in idle:
        case = gen_case(rng, force_choice=ch, force_each=e, empty=True)
        check(case, viol)
        check(dict(case, rebuilt=True), viol)
        seen.add(('idle', ch, e))
    for rep in range(1 if tier == 'quick' else 10):
        for which in ('vvis', 'avis'):
            for fmt in FORMATS:
                case = gen_visibility_split(rng, which, fmt)
                check(case, viol)
                check(dict(case, rebuilt=True), viol)
                seen.add(('visibility-split', which, fmt))
    for i in range(n + len(forced) + len(wrapped)):
        if i < n:
            case = gen_case(rng, empty=rng.random() < 0.05)
        elif i < n + len(forced):
            case = gen_forced(rng, *forced[i - n])
        else:
            k, ch = wrapped[i - n - len(forced)]
            case = gen_case(rng, force_choice=ch, force_each=True, force_wrap=k)
        check(case, viol)
        if i >= n or i % 4 == 0:
            # the same case through the pipeline rebuilt from its own serialised form (every purpose-built case, a
            # quarter of the random ones): a threshold that does not survive the round trip filters differently
            check(dict(case, rebuilt=True), viol)
        seen.add((tuple(case['shape']), case['format'], case['each'], tuple(sorted(case['thresholds'].items())),
                  tuple(s['cls'] for s in case['pipeline'])))
    return {'violations': viol, 'info': {'evaluations': n, 'distinct': len(seen),
                                         'what': 'crop pipelines cutting boxes along 1-3 axes x formats x boundary-equal thresholds x filtering schedule'}}


def replay(v):
    viol = []
    check(v['case'], viol)
    return bool(viol)
