(* PixSamplers.v -- parameter samplers of RandomBrightnessContrast, RandomGamma, Downscale and RandomScale
   (regenerated from get_params): for every configured range and every draw the sampled value lies in the range
   its own argument documents (contrast factor 1 + c with c in contrast_limit, brightness offset in
   brightness_limit, gamma in gamma_limit / 100, scale in [scale_min, scale_max] resp. scale_limit). *)
From Coq Require Import ZArith QArith List Bool String Lia Lqa.
Import ListNotations.
From DV.lib Require Import PyNum PyRt.
From DV.model Require Import Arrays NpRt.
From DV.gen Require Import Gen_cls_pixel_samplers Gen_cls_resize_samplers.
From DV.proofs Require Import Tac PadParams Dropout.
Open Scope Q_scope.

Theorem RandomBrightnessContrast_params b1 b2 c1 c2 d1 d2 alpha beta :
  b1 <= b2 -> c1 <= c2 ->
  RandomBrightnessContrastS_get_params (b1, b2) (c1, c2) d1 d2 = Ok (alpha, beta) ->
  (1 + c1 <= alpha /\ alpha <= 1 + c2) /\ (b1 <= beta /\ beta <= b2).
Proof.
  intros Hb Hc. unfold RandomBrightnessContrastS_get_params. intros E. res_inv.
  repeat match goal with
  | Hd : draw_uniform _ _ _ = Ok _ |- _ =>
      first [apply (draw_uniform_ok _ _ _ _ Hc) in Hd | apply (draw_uniform_ok _ _ _ _ Hb) in Hd]
  end.
  repeat split; lra.
Qed.

Theorem RandomGamma_params g1 g2 d1 gamma :
  g1 <= g2 -> RandomGammaS_get_params (g1, g2) d1 = Ok gamma -> g1 / 100 <= gamma /\ gamma <= g2 / 100.
Proof.
  intros Hg. unfold RandomGammaS_get_params. intros E. res_inv.
  match goal with Hd : draw_uniform _ _ _ = Ok _ |- _ => apply (draw_uniform_ok _ _ _ _ Hg) in Hd; destruct Hd as [L U] end.
  split; apply Qmult_le_compat_r; try assumption; apply Qinv_le_0_compat; discriminate.
Qed.

Theorem Downscale_params smax smin d1 s :
  smin <= smax -> DownscaleS_get_params smax smin d1 = Ok s -> smin <= s /\ s <= smax.
Proof. intros H. unfold DownscaleS_get_params. intros E. exact (draw_uniform_ok _ _ _ _ H E). Qed.

Theorem RandomScale_params lo hi d1 s :
  lo <= hi -> RandomScaleS_get_params (lo, hi) d1 = Ok s -> lo <= s /\ s <= hi.
Proof. intros H. unfold RandomScaleS_get_params. intros E. exact (draw_uniform_ok _ _ _ _ H E). Qed.
