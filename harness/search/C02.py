"""C02 failing-input search: returned boxes = hull of the input box carried through the
map the voxels underwent (derived from an index-labelled volume), clipped to the frame.
Exact for lattice pipelines; resampling bound max(1,|s-1|)+0.5 voxels per face."""
import random

import numpy as np

import geom
import implrun as R
import rotcheck as RC
import spatial as S


def expected_lattice(res_img, shape, boxes):
    """-> (lattice map, list of acceptable expectations)"""
    lat = geom.derive_lattice(res_img if res_img.ndim == 3 else res_img[..., 0], shape)
    if lat is None:
        return None, None
    oshape = res_img.shape[:3]
    exps = []
    for l in geom.variants(lat):
        exp = []
        for b in boxes:
            nb = geom.clip_box(geom.lat_box(l, b[:6]), oshape)
            if geom.box_volume(nb) > 0:
                exp.append(tuple(nb) + tuple(b[6:]))
        exps.append(exp)
    return lat, exps


def check_lattice(name, specs, case, viol):
    shape = tuple(case['shape'])
    try:
        res = S.run(specs, shape, case['seed'], boxes=case['bboxes'])
    except Exception as e:  # noqa
        viol.append({'site': 'C02:%s:raises' % name, 'kind': 'lattice', 'name': name, 'pipeline': specs, 'case': case,
                     'observed': '%s: %s' % (type(e).__name__, e), 'expected': 'no exception'})
        return
    lat, exps = expected_lattice(res['image'], shape, case['bboxes'])
    if exps is None:
        return
    got = res['bboxes']
    ok = any(len(got) == len(exp) and all(R.seq_close(g[:6], e[:6], 1e-7) and tuple(g[6:]) == tuple(e[6:])
                                          for g, e in zip(got, exp)) for exp in exps)
    exp = exps[0]
    if not ok:
        viol.append({'site': 'C02:%s' % name, 'kind': 'lattice', 'name': name, 'pipeline': specs, 'case': case,
                     'observed': [list(map(float, g[:6])) for g in got],
                     'expected': [list(map(float, e[:6])) for e in exp], 'voxel_map': lat})


def check_resample(name, spec, case, viol):
    """resize family: box faces scale with the frame (normalised identity); bound from the property"""
    shape = tuple(case['shape'])
    try:
        res = S.run([spec], shape, case['seed'], boxes=case['bboxes'])
    except Exception as e:  # noqa
        viol.append({'site': 'C02:%s:raises' % name, 'kind': 'resample', 'name': name, 'pipeline': [spec], 'case': case,
                     'observed': '%s: %s' % (type(e).__name__, e), 'expected': 'no exception'})
        return
    oshape = res['image'].shape[:3]
    sc = {0: oshape[1] / shape[1], 1: oshape[0] / shape[0], 2: oshape[2] / shape[2]}
    got = res['bboxes']
    bad = len(got) != len(case['bboxes'])
    if not bad:
        for g, b in zip(got, case['bboxes']):
            for i in range(6):
                s = sc[i % 3]
                # voxel centre convention of the resampler: out = (in - 0.5) * (n'-1)/(n-1) + 0.5 ; bound per property
                if abs(g[i] - b[i] * s) > max(1.0, abs(s - 1)) + 0.5 + 1e-9:
                    bad = True
    if bad:
        viol.append({'site': 'C02:%s' % name, 'kind': 'resample', 'name': name, 'pipeline': [spec], 'case': case,
                     'observed': [list(map(float, g[:6])) for g in got],
                     'expected': 'input faces x %s within max(1,|s-1|)+0.5' % (sc,)})


def gen_case(rng):
    shape = S.random_shape(rng)
    return {'shape': list(shape), 'bboxes': S.random_boxes(rng, shape), 'seed': R.pick_seed(rng)}


def check_rotation(case, viol):
    try:
        res = RC.run_case(case)
    except Exception as e:  # noqa
        viol.append({'site': 'C02:free-rotation:raises', 'kind': 'rotation', 'case': case,
                     'observed': '%s: %s' % (type(e).__name__, e), 'expected': 'no exception'})
        return
    for kind, what, obs, exp in res or []:
        if kind != 'box':
            continue
        site = 'C02:free-rotation:%s:%s' % (what, 'xy' if case['plane'] == 'xy' else 'planes-with-z')
        viol.append({'site': site, 'kind': 'rotation', 'case': case, 'observed': obs, 'expected': exp})
        return


def check_sized(case, viol):
    import sizedcrop
    bad = sizedcrop.check(case, 'boxes')
    if bad and bad[0] in ('box', 'box-lost', 'image', 'raises'):
        viol.append({'site': 'C02:RandomSizedCrop:%s' % bad[0], 'kind': 'sized', 'case': case, 'observed': bad[1], 'expected': bad[2]})


def check_near(case, viol):
    import search.C19 as C19
    bad = C19.check_near(case, faces=False)
    if bad and bad[0] in ('box-frame', 'box-lost', 'image-window', 'raises'):
        viol.append({'site': 'C02:RandomCropNearBBox:%s' % bad[0], 'kind': 'near', 'case': case, 'observed': bad[1], 'expected': bad[2]})


def run(seed=0, tier='quick', hints=None, broken=False):
    rng = random.Random(seed * 7919 + 2)
    n = 6 if tier == 'quick' else 150
    if broken:
        n *= 4
    viol, evals, seen = [], 0, set()
    for _ in range(n):
        case = gen_case(rng)
        shape = tuple(case['shape'])
        cfgs = S.lattice_configs(rng, shape)
        for c in cfgs:
            check_lattice(c['cls'], [c], case, viol)
            evals += 1
            seen.add((c['cls'], shape))
        # two-step pipelines: shape-agnostic second step
        second = [S.L('HorizontalFlip'), S.L('Transpose'), S.L('RandomRotate90', axes=rng.choice(S.PLANES)),
                  S.L('SliceFlip'), S.L('VerticalFlip')]
        for c in rng.sample(cfgs, 4):
            d = rng.choice(second)
            check_lattice(c['cls'] + '+' + d['cls'], [c, d], case, viol)
            evals += 1
            seen.add((c['cls'], d['cls'], shape))
        for c in S.dropout_configs(rng, shape)[1:]:
            check_lattice(c['cls'], [c], case, viol)
            evals += 1
        for c in S.resample_configs(rng, shape, interpolation=rng.randint(0, 1)):
            check_resample(c['cls'], c, case, viol)
            evals += 1
            seen.add((c['cls'], shape))
    # CropAndPad, every axis pattern once (volumes large enough for the crops)
    # RandomRotate90: every plane x every number of quarter turns once per run (pinned), on frames with three different extents
    for ax in S.PLANES:
        for k_ in range(4):
            shape = tuple(rng.sample([4, 5, 6, 7, 9], 3))
            case = {'shape': list(shape), 'bboxes': S.random_boxes(rng, shape), 'seed': R.pick_seed(rng)}
            check_lattice('RandomRotate90', [S.L('RandomRotate90', pin={'factor': k_, 'axes': ax}, axes=ax)], case, viol)
            evals += 1
            seen.add(('RandomRotate90-sweep', ax, k_))
    for rep in range(1 if tier == 'quick' else 12):
        for c in S.crop_and_pad_sweep(rng):
            shape = tuple(rng.sample([5, 6, 7, 8, 9, 10], 3))
            case = {'shape': list(shape), 'bboxes': S.random_boxes(rng, shape), 'seed': R.pick_seed(rng)}
            check_lattice('CropAndPad', [c], case, viol)
            evals += 1
            seen.add(('CropAndPad-sweep', repr(c['args'].get('px', c['args'].get('percent')))))
    # RandomCropNearBBox: the boxes are expressed in the CLAMPED window the image shows, also when the drawn window
    # passes the far faces of a volume with three different extents (oracle shared with C19)
    # RandomSizedCrop with a different zoom per axis: annotations follow their voxels (window read off the output)
    import sizedcrop
    for i in range(10 if tier == 'quick' else 250):
        case = sizedcrop.gen_case(rng)
        check_sized(case, viol)
        evals += 1
        seen.add(('RandomSizedCrop', tuple(case['shape']), case['kw']['w2h_ratio']))
    import search.C19 as C19
    for i in range(8 if tier == 'quick' else 200):
        case = C19.gen_case(rng, 'near', touch_far=(i % 4 == 0), touch_low=(i % 4 == 2))
        if i % 2 == 0:
            case['seed'] = R.EXT_BASE + [0xFFFF, 0x0000, 0xAAAA, 0x5555, rng.getrandbits(16)][(i // 2) % 5]
        check_near(case, viol)
        evals += 1
        seen.add(('RandomCropNearBBox', tuple(case['shape']), i % 2 == 0))
    for case in RC.sweep(rng) * (1 if tier == 'quick' else 6):
        case = dict(case, seed=rng.randint(0, 10 ** 6))
        check_rotation(case, viol)
        evals += 1
        seen.add(('rotation-sweep', case['cls'], case['plane'], bool(case.get('crop_to_border'))))
    for _ in range(n * 2):
        case = RC.gen_case(rng)
        check_rotation(case, viol)
        evals += 1
        seen.add(('rotation', case['cls'], case['plane'], case['method']))
    return {'violations': viol, 'info': {'evaluations': evals, 'distinct': len(seen),
                                         'what': 'box path vs voxel path (lattice map derived from labelled volume; affine fit for free rotations)'}}


def replay(v):
    viol = []
    if v.get('kind') == 'sized':
        check_sized(v['case'], viol)
    elif v.get('kind') == 'near':
        check_near(v['case'], viol)
    elif v.get('kind') == 'rotation':
        check_rotation(v['case'], viol)
    elif v.get('kind') == 'resample':
        check_resample(v['name'], v['pipeline'][0], v['case'], viol)
    else:
        check_lattice(v['name'], v['pipeline'], v['case'], viol)
    return bool(viol)
