#!/usr/bin/env python3
"""Correspondence for coq/model/CheckArgs.v: Compose._check_args on generated keyword arguments
(well-formed and malformed, shapes differing in a single axis) vs the model's verdict."""
import os
import random
import re
import subprocess
import sys

sys.path.insert(0, os.path.dirname(os.path.abspath(__file__)))
import implrun as R
import numpy as np

A = R.A
VERIF = os.path.abspath(os.path.join(os.path.dirname(__file__), '..'))


def gen_case(rng):
    base = [rng.randint(2, 6), rng.randint(2, 6), rng.randint(2, 6)]

    def shape():
        s = list(base)
        r = rng.random()
        if r < 0.25:
            s[rng.randrange(3)] += rng.choice([-1, 1, 2])
        return s
    names = ['image'] + rng.sample(['mask', 'masks', 'bboxes', 'keypoints', 'image2', 'mask2', 'labels'], rng.randint(0, 5))
    rng.shuffle(names)
    args = []
    for nm in names:
        if nm in ('image', 'mask', 'image2', 'mask2'):
            kind = rng.choices(['ok', 'list', 'f32bad', 'f32ok', 'f64big'], [6, 1, 1, 1, 1])[0]
            args.append({'name': nm, 'kind': kind, 'shape': shape(), 'channels': rng.choice([None, None, 2])})
        elif nm == 'masks':
            args.append({'name': nm, 'kind': rng.choice(['ok', 'ok', 'none', 'notarrays']), 'shape': shape()})
        else:
            args.append({'name': nm})
    return {'args': args, 'bbox_params': rng.random() < 0.6, 'check_shapes': rng.random() < 0.8}


def build_value(a, rng):
    nm = a['name']
    if nm in ('image', 'mask', 'image2', 'mask2'):
        sh = tuple(a['shape']) + ((a['channels'],) if a.get('channels') else ())
        k = a['kind']
        if k == 'list':
            return np.zeros(sh, np.uint8).tolist()
        if k == 'f32bad':
            v = np.zeros(sh, np.float32)
            v.flat[0] = rng.choice([1.5, -0.25])
            return v
        if k == 'f32ok':
            return np.full(sh, 0.5, np.float32)
        if k == 'f64big':
            return np.full(sh, 7.5, np.float64)
        return np.zeros(sh, np.uint8)
    if nm == 'masks':
        if a['kind'] == 'none':
            return None
        if a['kind'] == 'notarrays':
            return [[0, 1], [1, 0]]
        return [np.zeros(tuple(a['shape']), np.uint8), np.zeros((1, 1, 1), np.uint8)]
    if nm == 'bboxes':
        return [(0.1, 0.1, 0.1, 0.5, 0.5, 0.5)]
    if nm == 'keypoints':
        return [(1, 1, 1)]
    return ['a']


def coq_arg(a):
    nm = a['name']
    sh = '(%d, %d, %d)%%Z' % tuple(a['shape']) if 'shape' in a else None
    if nm in ('image', 'mask', 'image2', 'mask2'):
        return '(AArr %s %s %s)' % ('false' if a['kind'] == 'list' else 'true', 'true' if a['kind'] == 'f32bad' else 'false', sh)
    if nm == 'masks':
        return '(AMasks %s %s %s)' % ('false' if a['kind'] == 'none' else 'true', 'false' if a['kind'] == 'notarrays' else 'true', sh)
    if nm == 'bboxes':
        return 'ABoxes'
    return 'AOther'


def run(seed, n):
    rng = random.Random(seed * 15487469 + 8)
    cases, kinds = [], {}
    for i in range(n):
        c = gen_case(rng)
        kw = {}
        if c['bbox_params']:
            kw['bbox_params'] = A.BboxParams('dicaugment_3d')
        pipe = A.Compose([A.NoOp()], additional_targets={'image2': 'image', 'mask2': 'mask'}, is_check_shapes=c['check_shapes'], **kw)
        data = {a['name']: build_value(a, rng) for a in c['args']}
        try:
            pipe._check_args(**data)
            out = 'Ok tt'
        except (TypeError, ValueError) as e:
            out = 'Raise %s' % type(e).__name__
        except Exception as e:  # noqa
            out = 'other:%s' % type(e).__name__
        kinds[out] = kinds.get(out, 0) + 1
        c['observed'] = out
        c['coq'] = 'res_eqb (check_args %s %s [%s]) (%s)' % ('true' if c['bbox_params'] else 'false', 'true' if c['check_shapes'] else 'false',
                                                              '; '.join(coq_arg(a) for a in c['args']), out) if not out.startswith('other') else 'false'
        cases.append(c)
    cdir = os.path.join(VERIF, 'coq', 'cases')
    os.makedirs(cdir, exist_ok=True)
    path = os.path.join(cdir, 'ca_%d.v' % seed)
    with open(path, 'w') as f:
        f.write('From Coq Require Import ZArith List Bool.\nImport ListNotations.\nFrom DV.lib Require Import PyNum.\n'
                'From DV.model Require Import CheckArgs FrameworkCheck.\n'
                'Definition exn_code (e : exn) : nat := match e with ValueError => 1 | TypeError => 2 | _ => 3 end.\n'
                'Definition res_eqb (a b : res unit) : bool := match a, b with Ok _, Ok _ => true '
                '| Raise x, Raise y => Nat.eqb (exn_code x) (exn_code y) | _, _ => false end.\n')
        f.write('Definition cases : list bool := [\n' + ';\n'.join(' ' + c['coq'] for c in cases) + '].\n')
        f.write('Eval vm_compute in (bad_idx 0 cases).\n')
    p = subprocess.run(['timeout', '600', 'coqc', '-Q', 'lib', 'DV.lib', '-Q', 'model', 'DV.model', path],
                       cwd=os.path.join(VERIF, 'coq'), stdout=subprocess.PIPE, stderr=subprocess.STDOUT, text=True)
    m = re.search(r'=\s*\[(.*?)\]', p.stdout, re.S)
    errors, bad = [], []
    if p.returncode != 0 or m is None:
        errors.append(p.stdout[-1500:])
    else:
        bad = [int(x) for x in re.findall(r'\d+', m.group(1))]
    for ext in ('.vo', '.vok', '.vos', '.glob'):
        try:
            os.remove(path[:-2] + ext)
        except OSError:
            pass

    def js(c):
        return {k: v for k, v in c.items() if k != 'coq'}
    return {'cases': len(cases), 'distinct_cases': len({c['coq'] for c in cases}), 'result_kinds': kinds,
            'n_disagreements': len(bad), 'disagreements': [js(cases[i]) for i in bad[:10]], 'coq_errors': errors,
            'missing_functions': [], 'samples': [js(c) for c in cases[:2]]}


if __name__ == '__main__':
    import json
    print(json.dumps(run(int(sys.argv[1]), int(sys.argv[2])), indent=1)[:2500])
