(* CropPadKp.v -- crop_and_pad_keypoint (generated): the keypoint is shifted by the crop / pad offsets and,
   when the result is resized back (keep_size), zoomed by the per-axis factor of EVERY axis. *)
From Coq Require Import ZArith QArith Qminmax List Bool Lia Lqa.
From DV.lib Require Import PyNum PyRt.
From DV.gen Require Import Gen_geom_functional Gen_crops_functional.
From DV.proofs Require Import Tac.
Open Scope Q_scope.

Definition cp_shift (kp : Q * Q * Q * Q * Q) (cp pp : option (Z * Z * Z * Z * Z * Z)) : Q * Q * Q * Q * Q :=
  let '(x, y, z, a, s) := kp in
  let '(cx, cy, cz) := match cp with Some (x1, y1, z1, _, _, _) => (inject_Z x1, inject_Z y1, inject_Z z1) | None => (0, 0, 0) end in
  let '(px, py, pz) := match pp with Some (ptop, _, pleft, _, pclose, _) => (inject_Z pleft, inject_Z ptop, inject_Z pclose) | None => (0, 0, 0) end in
  (x - cx + px, y - cy + py, z - cz + pz, a, s).

Lemma inject_pos' z : (0 < z)%Z -> ~ inject_Z z == 0.
Proof. intros H E. assert (0 < inject_Z z) by (change 0 with (inject_Z 0); rewrite <- Zlt_Qlt; exact H). lra. Qed.

Theorem crop_and_pad_keypoint_spec kp cp pp r c s rr rc rs keep :
  (0 < rr)%Z -> (0 < rc)%Z -> (0 < rs)%Z ->
  exists kp', crop_and_pad_keypoint kp cp pp r c s rr rc rs keep = Ok kp' /\
    kp_eq kp' (if keep then keypoint_scale (cp_shift kp cp pp) (inject_Z c / inject_Z rc) (inject_Z r / inject_Z rr)
                                          (inject_Z s / inject_Z rs)
               else cp_shift kp cp pp).
Proof.
  intros Pr Pc Ps. destruct kp as [[[[x y] z] a] sc].
  unfold crop_and_pad_keypoint, cp_shift.
  destruct cp as [[[[[[x1 y1] z1] x2] y2] z2]|]; destruct pp as [[[[[[ptop pbottom] pleft] pright] pclose] pfar]|]; cbn zeta; cbn beta iota;
  (destruct keep; cbn [andb];
   [ destruct (negb (rc =? c)%Z || negb (rr =? r)%Z || negb (rs =? s)%Z) eqn:G;
     [ rewrite !divq_ok by (apply inject_pos'; assumption); cbn; eexists; split; [reflexivity|];
       unfold keypoint_scale, kp_eq; repeat split; try reflexivity; ring
     | (* no axis changed: all three factors are 1 *)
       apply orb_false_iff in G; destruct G as [G G3]; apply orb_false_iff in G; destruct G as [G1 G2];
       apply negb_false_iff in G1, G2, G3; apply Z.eqb_eq in G1, G2, G3; subst;
       eexists; split; [reflexivity|]; unfold keypoint_scale, kp_eq;
       assert (E1 : inject_Z c / inject_Z c == 1) by (field; apply inject_pos'; assumption);
       assert (E2 : inject_Z r / inject_Z r == 1) by (field; apply inject_pos'; assumption);
       assert (E3 : inject_Z s / inject_Z s == 1) by (field; apply inject_pos'; assumption);
       repeat split; try reflexivity; rewrite ?E1, ?E2, ?E3; try ring;
       rewrite (Q.max_l 1 1) by lra; rewrite (Q.max_l 1 1) by lra; ring ]
   | eexists; split; [reflexivity|]; unfold kp_eq; repeat split; try reflexivity; ring ]).
Qed.
