(* CheckArgs.v -- hand-written executable model of Compose._check_args (core/composition.py),
   tied to the code by harness/corr_checkargs.py.  One [arg] per keyword argument, in call order. *)
From Coq Require Import ZArith List Bool.
Import ListNotations.
From DV.lib Require Import PyNum.
Open Scope Z_scope.

Definition shp : Type := (Z * Z * Z)%type.
Inductive arg :=
| AArr (is_array : bool) (f32_out_of_unit : bool) (shape : shp)      (* image / mask / additional image or mask target *)
| AMasks (present : bool) (first_is_array : bool) (shape : shp)      (* masks: None, or a list whose first element is checked *)
| ABoxes                                                             (* bboxes *)
| AOther.                                                            (* keypoints, labels, header, anything else *)

Definition shp_eqb (a b : shp) : bool :=
  let '(x, y, z) := a in let '(x', y', z') := b in (x =? x') && (y =? y') && (z =? z').

(* the loop over kwargs: first failure wins; shapes accumulate in order *)
Fixpoint scan (has_bbox_processor : bool) (args : list arg) (shapes : list shp) : res (list shp) :=
  match args with
  | [] => Ok shapes
  | AArr is_arr bad sh :: tl =>
      if negb is_arr then Raise TypeError
      else if bad then Raise ValueError
      else scan has_bbox_processor tl (shapes ++ [sh])
  | AMasks present first_arr sh :: tl =>
      if present then (if negb first_arr then Raise TypeError else scan has_bbox_processor tl (shapes ++ [sh]))
      else scan has_bbox_processor tl shapes
  | ABoxes :: tl => if has_bbox_processor then scan has_bbox_processor tl shapes else Raise ValueError
  | AOther :: tl => scan has_bbox_processor tl shapes
  end.

Definition all_equal (shapes : list shp) : bool :=
  match shapes with [] => true | s :: _ => forallb (shp_eqb s) shapes end.

Definition check_args (has_bbox_processor is_check_shapes : bool) (args : list arg) : res unit :=
  match scan has_bbox_processor args [] with
  | Raise e => Raise e
  | Ok shapes => if is_check_shapes && negb (all_equal shapes) then Raise ValueError else Ok tt
  end.
