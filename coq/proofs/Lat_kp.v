(* Lat_kp.v -- the generated keypoint maps equal the map induced by the SAME lattice
   descriptor the voxel path realises; the in-plane angle follows the xy part of the
   descriptor (mirror / rotation table), always normalised into [0, 2pi); scale unchanged. *)
From Coq Require Import ZArith QArith List Bool Lia Lqa String.
From DV.lib Require Import PyNum PyRt Angle.
From DV.model Require Import Arrays Lattice.
From DV.gen Require Import Gen_keypoints_utils Gen_geom_functional Gen_crops_functional.
From DV.proofs Require Import Tac KpTac C17_box.
Open Scope Q_scope.

(* The angle of the direction vector (cos a, sin a) after the xy part of a lattice map.
   Out axis 1 (x') reads input axis (lperm 1) with sign -1 iff lneg 1, and likewise y'.
   Quarter turns in planes containing z leave the in-plane angle alone (as the library does). *)
Definition lat_angle (l : lat) (a : Q) : Q :=
  let nx := lneg l 1%nat in let ny := lneg l 0%nat in
  if Nat.eqb (lperm l 1%nat) 1 && Nat.eqb (lperm l 0%nat) 0 then
    match nx, ny with
    | false, false => a
    | true, false => pi - a
    | false, true => - a
    | true, true => a + pi
    end
  else if Nat.eqb (lperm l 1%nat) 0 && Nat.eqb (lperm l 0%nat) 1 then
    match nx, ny with
    | false, false => pi / 2 - a
    | false, true => a - pi / 2
    | true, false => a + pi / 2
    | true, true => - pi / 2 - a
    end
  else a.

(* position and scale follow descriptor l; the angle is [norm ea] *)
Definition kp_follows_with (k' k : kp) (l : lat) (ea : Q) : Prop :=
  let '(x, y, z, a, sc) := k in let '(x', y', z', a', sc') := k' in
  let '(ex, ey, ez) := lat_kp_xyz l x y z in
  x' == ex /\ y' == ey /\ z' == ez /\ a' == norm ea /\ sc' == sc.
Definition kp_angle (k : kp) : Q := let '(_, _, _, a, _) := k in a.
Definition kp_follows (k' k : kp) (l : lat) : Prop := kp_follows_with k' k l (lat_angle l (kp_angle k)).
(* quarter turns: in the xy plane the angle turns with the plane; in the planes that contain
   z the library keeps the in-plane angle as it is (interpretation recorded in DESIGN.md) *)
Definition rot90_angle (n : Z) (ax : string) (a : Q) : Q :=
  if streq ax "xy" then a - inject_Z n * (pi / 2) else a.

Ltac kp_lat :=
  unfold kp_follows, kp_follows_with, kp_angle, rot90_angle, lat_kp_xyz, lat_kp, lat_kp_axis, lat_angle; cbn; to_norm;
  repeat split; push_inj; try reflexivity; try lra;
  try (apply norm_cong; first [cong_close 0%Z | cong_close 1%Z | cong_close (-1)%Z ]).

Section Frame.
Variables r c s : Z.
Let sh : shape3 := (r, c, s).

Lemma kp_vflip_lat k : kp_follows (keypoint_vflip k r c s) k (lat_flip 0 sh).
Proof. destruct_kp k. unfold keypoint_vflip, keypoint_vflip_raw. kp_lat. Qed.
Lemma kp_hflip_lat k : kp_follows (keypoint_hflip k r c s) k (lat_flip 1 sh).
Proof. destruct_kp k. unfold keypoint_hflip, keypoint_hflip_raw. kp_lat. Qed.
Lemma kp_zflip_lat k : kp_follows (keypoint_zflip k r c s) k (lat_flip 2 sh).
Proof. destruct_kp k. unfold keypoint_zflip, keypoint_zflip_raw. kp_lat. Qed.

Definition lat_flipcode (d : Z) (sh : shape3) : lat :=
  if (d =? 0)%Z then lat_flip 0 sh else if (d =? 1)%Z then lat_flip 1 sh
  else if (d =? 2)%Z then lat_flip 2 sh else lat_flip_all sh.

Lemma kp_flip_lat k d : In d flipcodes ->
  exists k', keypoint_flip k d r c s = Ok k' /\ kp_follows k' k (lat_flipcode d sh).
Proof.
  intros H. destruct_kp k. unfold flipcodes in H.
  in_cases H; unfold keypoint_flip, keypoint_vflip, keypoint_vflip_raw, keypoint_hflip, keypoint_hflip_raw,
    keypoint_zflip, keypoint_zflip_raw; cbn; (eexists; split; [reflexivity|]); kp_lat.
  (* all-axes flip: -(pi - a) = a - pi = a + pi (mod 2pi) *)
  all: try (norm_flat; apply norm_cong; first [cong_close 0%Z | cong_close 1%Z | cong_close (-1)%Z]).
Qed.

Lemma kp_rot90_lat k n ax : In n factors -> In ax planes ->
  exists k', keypoint_rot90 k n ax r c s = Ok k' /\
    let '(a1, a2) := plane_axes ax in
    kp_follows_with k' k (lat_rot90 n a1 a2 sh) (rot90_angle n ax (kp_angle k)).
Proof.
  intros Hn Ha. destruct_kp k. unfold factors in Hn. unfold planes in Ha.
  in_cases Hn; in_cases Ha; unfold keypoint_rot90, keypoint_rot90_raw; cbn;
  (eexists; split; [reflexivity|]); kp_lat;
  try (apply norm_cong; unfold inject_Z;
       first [cong_close 0%Z | cong_close 1%Z | cong_close (-1)%Z | cong_close 2%Z | cong_close (-2)%Z]).
Qed.

End Frame.

(* Transpose: needs the incoming angle in [0, 2pi) because the code branches on it *)
Lemma kp_transpose_lat k : (let '(_, _, _, a, _) := k in 0 <= a /\ a < M) ->
  kp_follows (keypoint_transpose k) k lat_transpose.
Proof.
  destruct_kp k. intros [A0 A1]. unfold M in A1. pose proof pi_pos as P.
  unfold keypoint_transpose. cbn.
  unfold kp_follows, kp_follows_with, kp_angle, lat_kp_xyz, lat_kp, lat_kp_axis, lat_angle; cbn.
  div2.
  destruct (Qle_bool_spec ka (pi * (1 # 2))) as [L|L]; repeat split; push_inj; try lra; symmetry.
  - apply norm_id; unfold M; lra.
  - apply (norm_close _ _ (-1)%Z); unfold M, inject_Z; lra.
Qed.
