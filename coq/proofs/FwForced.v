(* FwForced.v -- forced application reaches a leaf through every chain of choice operators: a tree built from OneOf,
   OneOrOther and leaves, once selected (called with force_apply), applies EXACTLY ONE leaf whatever the probabilities
   written on its operators and leaves. *)
From Coq Require Import List QArith Bool Arith Lia.
Import ListNotations.
From DV.model Require Import Framework.
From DV.proofs Require Import Fw.
Open Scope Q_scope.

Fixpoint choice_only (t : node) : bool :=
  match t with
  | Leaf _ _ _ => true
  | OneOfN _ kids => negb (match kids with [] => true | _ => false end) && forallb choice_only kids
  | OneOrOtherN _ kids => forallb choice_only kids
  | _ => false
  end.

Section Forced.
Variable data : Type.
Variable sem : nat -> data -> data.
Notation run := (run data sem).

Lemma pick_with_in rk l : forall i d ds st,
  pick_with data rk l i d ds = Some st -> exists k, In k l /\ rk k true d ds = Some st.
Proof.
  induction l as [|k tl IH]; intros i d ds st H; destruct i as [|j]; cbn in H; try discriminate.
  - exists k. split; [left; reflexivity | exact H].
  - destruct (IH j d ds st H) as [k' [Hin Hk]]. exists k'. split; [right; exact Hin | exact Hk].
Qed.

Definition one_leaf_stmt (t : node) : Prop :=
  choice_only t = true -> forall d ds d' tr ds', run t true d ds = Some (d', tr, ds') -> length tr = 1%nat.

Lemma forced_choice_fires_one t : one_leaf_stmt t.
Proof.
  induction t as [id p a | p kids IH | p kids IH | p n r kids IH | p kids IH | p kids IH] using node_ind';
  unfold one_leaf_stmt; intros Hc d ds d' tr ds' H; cbn in Hc; try discriminate.
  - cbn in H. destruct ds as [|[u|l] ds0]; try discriminate.
    rewrite orb_true_r in H. inversion H; reflexivity.
  - apply andb_true_iff in Hc. destruct Hc as [Hne Hall].
    destruct kids as [|k0 tl]; [discriminate|].
    cbn in H. destruct ds as [|[u|l] ds1]; try discriminate.
    destruct l as [|i [|? ?]]; try discriminate.
    assert (H' : pick_with data (fun k f d ds => run k f d ds) (k0 :: tl) i d ds1 = Some (d', tr, ds')) by exact H.
    clear H. apply pick_with_in in H'. destruct H' as [k [Hin Hk]].
    rewrite Forall_forall in IH. rewrite forallb_forall in Hall.
    exact (IH k Hin (Hall k Hin) d ds1 d' tr ds' Hk).
  - cbn in H. destruct ds as [|[u|l] ds1]; try discriminate.
    rewrite Forall_forall in IH. rewrite forallb_forall in Hc.
    destruct (Qltb u p); apply pick_with_in in H; destruct H as [k [Hin Hk]];
    exact (IH k Hin (Hc k Hin) d ds1 d' tr ds' Hk).
Qed.

End Forced.

(* non-vacuity: OneOf([OneOf([leaf], p = 1/10)], p = 1/4), selected, applies its leaf although both coins (not read)
   would have said no *)
Example nested_choice_runs :
  choice_only (OneOfN (1 # 4) [OneOfN (1 # 10) [Leaf 7 (1 # 2) false]]) = true /\
  run nat (fun id d => (d + id)%nat) (OneOfN (1 # 4) [OneOfN (1 # 10) [Leaf 7 (1 # 2) false]]) true 0%nat
      [DC [0%nat]; DC [0%nat]; DU (9 # 10)] = Some (7%nat, [7%nat], []).
Proof. split; vm_compute; reflexivity. Qed.
