"""Empirical affine map of a spatial transform: the transform is applied (nearest interpolation) to a
volume in which a spread of voxels carries distinct labels; from where the labels land, the affine map
`out = A @ in + b` on continuous coordinates (voxel centres at index + 0.5, axes ordered x, y, z) is
fitted by least squares.  Used as the reference "map the image voxels underwent" for free rotations."""
import numpy as np


def marked_volume(shape, rng, n=40):
    H, W, D = shape
    vol = np.zeros(shape, np.int32)
    pts = []
    tries = 0
    while len(pts) < n and tries < 2000:
        tries += 1
        y, x, z = rng.randrange(H), rng.randrange(W), rng.randrange(D)
        if vol[y, x, z] == 0:
            vol[y, x, z] = len(pts) + 1
            pts.append((x, y, z))
    return vol, pts


def fit(out, pts, min_points=8):
    """returns (A 3x3, b 3, residual rms, number of labels found) in (x, y, z) continuous coordinates, or None"""
    src, dst = [], []
    for lab, (x, y, z) in enumerate(pts, start=1):
        where = np.argwhere(out == lab)
        if len(where) == 0:
            continue
        cy, cx, cz = where.mean(axis=0)
        src.append((x + 0.5, y + 0.5, z + 0.5))
        dst.append((cx + 0.5, cy + 0.5, cz + 0.5))
    if len(src) < min_points:
        return None
    S = np.hstack([np.array(src), np.ones((len(src), 1))])
    Dm = np.array(dst)
    sol, res, rank, _ = np.linalg.lstsq(S, Dm, rcond=None)
    if rank < 4:
        return None
    A, b = sol[:3].T, sol[3]
    rms = float(np.sqrt(np.mean((S @ sol - Dm) ** 2)))
    return A, b, rms, len(src)


def apply(A, b, p):
    return A @ np.asarray(p, float) + b
