(* BoxSafe.v -- BBoxSafeRandomCrop: union of boxes, crop window, trimming bound (generated code). *)
From Coq Require Import ZArith QArith Qround Qminmax List Bool String Lia Lqa.
Import ListNotations.
From DV.lib Require Import PyNum PyRt.
From DV.model Require Import Arrays NpRt.
From DV.gen Require Import Gen_bbox_utils Gen_crops_functional Gen_cls_crops.
From DV.proofs Require Import Tac PadParams.
Open Scope Q_scope.

(* ---- union_of_bboxes: the union reaches every box up to the erosion fraction of ITS OWN extent on each axis ---- *)
Definition covers (e : Q) (u b : Q * Q * Q * Q * Q * Q) : Prop :=
  let '(x1, y1, z1, x2, y2, z2) := u in let '(xm, ym, zm, xM, yM, zM) := b in
  x1 <= xm + e * (xM - xm) /\ xM - e * (xM - xm) <= x2 /\
  y1 <= ym + e * (yM - ym) /\ yM - e * (yM - ym) <= y2 /\
  z1 <= zm + e * (zM - zm) /\ zM - e * (zM - zm) <= z2.

Definition union_step (e : Q) (st b : Q * Q * Q * Q * Q * Q) : Q * Q * Q * Q * Q * Q :=
  let '(x1, x2, y1, y2, z1, z2) := st in
  let '(xm, ym, zm, xM, yM, zM) := b in
  (Qmin x1 (xm + e * (xM - xm)), Qmax x2 (xM - e * (xM - xm)),
   Qmin y1 (ym + e * (yM - ym)), Qmax y2 (yM - e * (yM - ym)),
   Qmin z1 (zm + e * (zM - zm)), Qmax z2 (zM - e * (zM - zm))).

Lemma fold_left_ext' {A B} (f g : A -> B -> A) l : (forall a b, f a b = g a b) -> forall a, fold_left f l a = fold_left g l a.
Proof. intros E. induction l as [|x tl IH]; intros a; cbn; [reflexivity|]. rewrite E. apply IH. Qed.

Lemma union_unfold H W D bs e :
  union_of_bboxes H W D bs e =
  let '(x1, x2, y1, y2, z1, z2) :=
    fold_left (union_step e) bs (inject_Z W, inject_Z 0, inject_Z H, inject_Z 0, inject_Z D, inject_Z 0) in
  (x1, y1, z1, x2, y2, z2).
Proof.
  unfold union_of_bboxes. cbn zeta.
  match goal with |- context [fold_left ?f bs ?i] =>
    rewrite (fold_left_ext' f (union_step e) bs)
  end; [reflexivity|].
  intros [[[[[a b0] c] d] e0] f0] [[[[[xm ym] zm] xM] yM] zM]. reflexivity.
Qed.

Definition le6 (a b : Q * Q * Q * Q * Q * Q) : Prop :=
  let '(x1, x2, y1, y2, z1, z2) := a in let '(x1', x2', y1', y2', z1', z2') := b in
  x1 <= x1' /\ x2' <= x2 /\ y1 <= y1' /\ y2' <= y2 /\ z1 <= z1' /\ z2' <= z2.

Lemma fold_union_mono e bs : forall st, le6 (fold_left (union_step e) bs st) st.
Proof.
  induction bs as [|b tl IH]; intros st; cbn [fold_left].
  - destruct st as [[[[[a b0] c] d] e0] f0]. cbn. repeat split; lra.
  - specialize (IH (union_step e st b)).
    destruct (fold_left (union_step e) tl (union_step e st b)) as [[[[[r1 r2] r3] r4] r5] r6].
    destruct st as [[[[[a b0] c] d] e0] f0]. destruct b as [[[[[xm ym] zm] xM] yM] zM]. cbn in *.
    destruct IH as (A & B & C & D0 & E & F).
    pose proof (Q.le_min_l a (xm + e * (xM - xm))). pose proof (Q.le_max_l b0 (xM - e * (xM - xm))).
    pose proof (Q.le_min_l c (ym + e * (yM - ym))). pose proof (Q.le_max_l d (yM - e * (yM - ym))).
    pose proof (Q.le_min_l e0 (zm + e * (zM - zm))). pose proof (Q.le_max_l f0 (zM - e * (zM - zm))).
    repeat split; lra.
Qed.

Lemma fold_union_covers e bs : forall st b, In b bs ->
  let '(x1, x2, y1, y2, z1, z2) := fold_left (union_step e) bs st in covers e (x1, y1, z1, x2, y2, z2) b.
Proof.
  induction bs as [|b0 tl IH]; intros st b Hin; [contradiction|]. cbn [fold_left].
  destruct Hin as [->|Hin]; [|apply IH; exact Hin].
  pose proof (fold_union_mono e tl (union_step e st b)) as M.
  destruct (fold_left (union_step e) tl (union_step e st b)) as [[[[[r1 r2] r3] r4] r5] r6].
  destruct st as [[[[[a b0] c] d] e0] f0]. destruct b as [[[[[xm ym] zm] xM] yM] zM]. cbn in *.
  destruct M as (A & B & C & D0 & E & F).
  pose proof (Q.le_min_r a (xm + e * (xM - xm))). pose proof (Q.le_max_r b0 (xM - e * (xM - xm))).
  pose proof (Q.le_min_r c (ym + e * (yM - ym))). pose proof (Q.le_max_r d (yM - e * (yM - ym))).
  pose proof (Q.le_min_r e0 (zm + e * (zM - zm))). pose proof (Q.le_max_r f0 (zM - e * (zM - zm))).
  repeat split; lra.
Qed.

Theorem union_covers_every_box H W D bs e b : In b bs -> covers e (union_of_bboxes H W D bs e) b.
Proof.
  intros Hin. rewrite union_unfold. pose proof (fold_union_covers e bs (inject_Z W, inject_Z 0, inject_Z H, inject_Z 0, inject_Z D, inject_Z 0) b Hin) as C.
  destruct (fold_left (union_step e) bs _) as [[[[[r1 r2] r3] r4] r5] r6]. exact C.
Qed.

(* the union stays inside [0, frame extent] x ... when there is at least one box inside the unit cube *)
Definition box_valid (b : Q * Q * Q * Q * Q * Q) : Prop :=
  let '(xm, ym, zm, xM, yM, zM) := b in 0 <= xm <= xM /\ xM <= 1 /\ 0 <= ym <= yM /\ yM <= 1 /\ 0 <= zm <= zM /\ zM <= 1.

Lemma fold_union_bounds e bs : 0 <= e -> Forall box_valid bs -> forall st,
  (let '(x1, x2, y1, y2, z1, z2) := st in 0 <= x1 /\ x2 <= 1 /\ 0 <= y1 /\ y2 <= 1 /\ 0 <= z1 /\ z2 <= 1) ->
  let '(x1, x2, y1, y2, z1, z2) := fold_left (union_step e) bs st in
  0 <= x1 /\ x2 <= 1 /\ 0 <= y1 /\ y2 <= 1 /\ 0 <= z1 /\ z2 <= 1.
Proof.
  intros He Hv. induction Hv as [|b tl Hb Htl IH]; intros st Hst; cbn [fold_left]; [exact Hst|].
  apply IH. destruct st as [[[[[a b0] c] d] e0] f0]. destruct b as [[[[[xm ym] zm] xM] yM] zM]. cbn in *.
  destruct Hst as (A & B & C & D0 & E & F). destruct Hb as (V1 & V2 & V3 & V4 & V5 & V6).
  assert (0 <= e * (xM - xm)) by (apply Qmult_le_0_compat; lra).
  assert (0 <= e * (yM - ym)) by (apply Qmult_le_0_compat; lra).
  assert (0 <= e * (zM - zm)) by (apply Qmult_le_0_compat; lra).
  repeat split.
  - apply Q.min_glb; lra.
  - apply Q.max_lub; lra.
  - apply Q.min_glb; lra.
  - apply Q.max_lub; lra.
  - apply Q.min_glb; lra.
  - apply Q.max_lub; lra.
Qed.

Theorem union_in_unit_cube H W D bs e b0 : (0 <= H)%Z -> (0 <= W)%Z -> (0 <= D)%Z -> 0 <= e <= 1 # 2 ->
  Forall box_valid bs -> In b0 bs ->
  let '(x1, y1, z1, x2, y2, z2) := union_of_bboxes H W D bs e in
  0 <= x1 <= x2 /\ x2 <= 1 /\ 0 <= y1 <= y2 /\ y2 <= 1 /\ 0 <= z1 <= z2 /\ z2 <= 1.
Proof.
  intros PH PW PD [E0 E1] Hv Hin.
  pose proof (union_covers_every_box H W D bs e b0 Hin) as C.
  rewrite union_unfold in *.
  pose proof (fold_union_bounds e bs E0 Hv (inject_Z W, inject_Z 0, inject_Z H, inject_Z 0, inject_Z D, inject_Z 0)) as Bd.
  destruct (fold_left (union_step e) bs _) as [[[[[r1 r2] r3] r4] r5] r6].
  assert (I : 0 <= inject_Z W /\ 0 <= inject_Z H /\ 0 <= inject_Z D).
  { change 0 with (inject_Z 0). rewrite <- !Zle_Qle. auto. }
  destruct I as (IW & IH & ID).
  assert (Z01 : inject_Z 0 <= 1) by (compute; discriminate).
  destruct Bd as (B1 & B2 & B3 & B4 & B5 & B6); [repeat split; assumption|].
  rewrite Forall_forall in Hv. specialize (Hv b0 Hin).
  destruct b0 as [[[[[xm ym] zm] xM] yM] zM]. cbn in C, Hv.
  destruct C as (C1 & C2 & C3 & C4 & C5 & C6). destruct Hv as (V1 & V2 & V3 & V4 & V5 & V6).
  assert (e * (xM - xm) <= (1 # 2) * (xM - xm)) by (apply Qmult_le_compat_r; lra).
  assert (e * (yM - ym) <= (1 # 2) * (yM - ym)) by (apply Qmult_le_compat_r; lra).
  assert (e * (zM - zm) <= (1 # 2) * (zM - zm)) by (apply Qmult_le_compat_r; lra).
  repeat split; lra.
Qed.

(* ---- one axis of the window computation (expressions as in the generated code) ---- *)
Lemma axis_window (W : Z) (bx bx2 : Q) :
  (0 < W)%Z -> 0 <= bx -> bx <= bx2 -> bx2 <= 1 ->
  let bw := bx2 - bx in
  bw < 1 ->
  let cw := py_int (inject_Z W * bw) in
  let ws := clip (bx / (1 - bw)) 0 1 in
  let x1 := Z.min (py_int ((inject_Z W - inject_Z cw + 1) * ws)) (W - cw) in
  (0 <= x1)%Z /\ (0 <= cw)%Z /\ (x1 + cw <= W)%Z /\
  inject_Z x1 < inject_Z W * bx + 2 /\ inject_Z W * bx2 - 2 < inject_Z (x1 + cw).
Proof.
  intros PW B0 B1 B2 bw Hbw cw ws x1.
  assert (IW : 0 < inject_Z W) by (change 0 with (inject_Z 0); rewrite <- Zlt_Qlt; exact PW).
  assert (Hb0 : 0 <= bw) by (unfold bw; lra).
  assert (Hwb : 0 <= inject_Z W * bw) by (apply Qmult_le_0_compat; lra).
  destruct (py_int_nonneg _ Hwb) as [F1 F2]. pose proof (py_int_nonneg_ge0 _ Hwb) as F0. fold cw in F1, F2, F0.
  assert (Hcw : (cw <= W)%Z).
  { rewrite Zle_Qle. assert (inject_Z W * bw <= inject_Z W * 1) by (rewrite !(Qmult_comm (inject_Z W)); apply Qmult_le_compat_r; lra). lra. }
  (* the start fraction is never clipped: bx / (1 - bw) is in [0, 1] because bx + bw = bx2 <= 1 *)
  set (r := bx / (1 - bw)).
  assert (Rm : r * (1 - bw) == bx) by (unfold r; field; lra).
  assert (R0 : 0 <= r) by (unfold r; apply Qle_shift_div_l; lra).
  assert (R1 : r <= 1) by (unfold r; apply Qle_shift_div_r; [lra | unfold bw; lra]).
  assert (Ews : ws == r) by (unfold ws; apply clip_id; assumption).
  set (T := (inject_Z W - inject_Z cw + 1) * ws).
  assert (T0 : 0 <= T).
  { unfold T. apply Qmult_le_0_compat; [|rewrite Ews; exact R0]. rewrite Zle_Qle in Hcw. lra. }
  destruct (py_int_nonneg _ T0) as [G1 G2]. pose proof (py_int_nonneg_ge0 _ T0) as G0.
  assert (ET : T == inject_Z W * bx + (inject_Z W * bw - inject_Z cw + 1) * r).
  { unfold T. rewrite Ews, <- Rm. ring. }
  set (f := inject_Z W * bw - inject_Z cw) in *.
  assert (Hf : 0 <= f < 1) by (unfold f; lra).
  assert (K1 : (f + 1) * r < 2) by nra.
  assert (K0 : 0 <= (f + 1) * r) by nra.
  unfold x1. fold T.
  repeat split.
  - lia.
  - exact F0.
  - lia.
  - assert (inject_Z (Z.min (py_int T) (W - cw)) <= inject_Z (py_int T)) by (rewrite <- Zle_Qle; lia). lra.
  - destruct (Z.min_spec (py_int T) (W - cw)) as [[_ ->]|[_ ->]].
    + rewrite inject_Z_plus. unfold bw in *. lra.
    + replace (W - cw + cw)%Z with W by lia.
      assert (inject_Z W * bx2 <= inject_Z W * 1) by (rewrite !(Qmult_comm (inject_Z W)); apply Qmult_le_compat_r; lra). lra.
Qed.

Lemma axis_case (W : Z) (bx bx2 t : Q) :
  (0 < W)%Z -> 0 <= bx -> bx <= bx2 -> bx2 <= 1 ->
  (if Qge_bool (bx2 - bx) 1 then Ok 0 else divq bx (1 - (bx2 - bx))) = Ok t ->
  let cw := (if Qge_bool (bx2 - bx) 1 then W else py_int (inject_Z W * (bx2 - bx))) in
  let x1 := Z.min (py_int ((inject_Z W - inject_Z cw + 1) * clip t 0 1)) (W - cw) in
  (0 <= x1)%Z /\ (0 <= cw)%Z /\ (x1 + cw <= W)%Z /\
  inject_Z x1 < inject_Z W * bx + 2 /\ inject_Z W * bx2 - 2 < inject_Z (x1 + cw).
Proof.
  intros PW B0 B1 B2 E.
  assert (IW : 0 < inject_Z W) by (change 0 with (inject_Z 0); rewrite <- Zlt_Qlt; exact PW).
  destruct (Qge_bool_spec (bx2 - bx) 1) as [G|G].
  - (* the whole axis is kept *)
    inversion E; subst. cbn zeta.
    assert (C0 : clip 0 0 1 == 0) by (apply clip_id; lra).
    assert (Z0 : (inject_Z W - inject_Z W + 1) * clip 0 0 1 == 0) by (rewrite C0; ring).
    rewrite (py_int_comp _ _ Z0). change (py_int 0) with 0%Z.
    replace (Z.min 0 (W - W)) with 0%Z by lia. replace (0 + W)%Z with W by lia.
    assert (inject_Z W * bx2 <= inject_Z W * 1) by (rewrite !(Qmult_comm (inject_Z W)); apply Qmult_le_compat_r; lra).
    assert (0 <= inject_Z W * bx) by (apply Qmult_le_0_compat; lra).
    repeat split; try lia; change (inject_Z 0) with 0; lra.
  - assert (Hlt : bx2 - bx < 1) by lra.
    rewrite divq_ok in E by lra. inversion E; subst.
    exact (axis_window W bx bx2 PW B0 B1 B2 Hlt).
Qed.

Lemma draw_unit_ok u v : draw_unit u = Ok v -> v = u /\ 0 <= u < 1.
Proof.
  unfold draw_unit. destruct (Qle_bool 0 u) eqn:E1; cbn; [|discriminate].
  destruct (Qlt_bool_spec u 1); [|discriminate]. apply Qle_bool_iff in E1. intros E. inversion E; subst.
  split; [reflexivity | split; assumption].
Qed.

(* the sampled corner fractions enclose the union *)
Lemma corners x x2 u u' : 0 <= x -> x <= x2 -> x2 <= 1 -> 0 <= u < 1 -> 0 <= u' < 1 ->
  0 <= x * u /\ x * u <= x /\ x2 <= x2 + (1 - x2) * u' /\ x2 + (1 - x2) * u' <= 1.
Proof. intros. repeat split; nra. Qed.

Lemma face_lt (W a b c : Q) : 0 < W -> a <= b -> c < W * a + 2 -> c < W * b + 2.
Proof. intros. assert (W * a <= W * b) by (apply Qmult_le_l; assumption). lra. Qed.
Lemma face_gt (W a b c : Q) : 0 < W -> b <= a -> W * a - 2 < c -> W * b - 2 < c.
Proof. intros. assert (W * b <= W * a) by (apply Qmult_le_l; assumption). lra. Qed.

(* ---- the crop window of BBoxSafeRandomCrop (sampler + get_random_crop_coords, both generated) ----
   for every value of the draws: the window lies inside the volume, has the sampled size, and cuts
   every box by LESS THAN TWO voxels plus the erosion fraction of the box extent, on each face. *)
Definition face_bounds (e : Q) (H W D : Z) (win : Z * Z * Z * Z * Z * Z) (b : Q * Q * Q * Q * Q * Q) : Prop :=
  let '(x1, y1, z1, x2, y2, z2) := win in let '(xm, ym, zm, xM, yM, zM) := b in
  inject_Z x1 < inject_Z W * (xm + e * (xM - xm)) + 2 /\ inject_Z W * (xM - e * (xM - xm)) - 2 < inject_Z x2 /\
  inject_Z y1 < inject_Z H * (ym + e * (yM - ym)) + 2 /\ inject_Z H * (yM - e * (yM - ym)) - 2 < inject_Z y2 /\
  inject_Z z1 < inject_Z D * (zm + e * (zM - zm)) + 2 /\ inject_Z D * (zM - e * (zM - zm)) - 2 < inject_Z z2.

Theorem bbox_safe_window e img bs d1 d2 d3 d4 d5 d6 d7 d8 d9 d10 H W D hs ws ds ch cw cd :
  vshape img = (H, W, D) -> (0 < H)%Z -> (0 < W)%Z -> (0 < D)%Z -> 0 <= e <= 1 # 2 ->
  bs <> [] -> Forall box_valid bs ->
  BBoxSafeRandomCropS_get_params_dependent_on_targets e img bs d1 d2 d3 d4 d5 d6 d7 d8 d9 d10 = Ok (hs, ws, ds, ch, cw, cd) ->
  let win := get_random_crop_coords H W D ch cw cd hs ws ds in
  let '(x1, y1, z1, x2, y2, z2) := win in
  ((0 <= x1 /\ x2 = x1 + cw /\ x2 <= W /\ 0 <= y1 /\ y2 = y1 + ch /\ y2 <= H /\ 0 <= z1 /\ z2 = z1 + cd /\ z2 <= D /\
    0 <= cw /\ 0 <= ch /\ 0 <= cd)%Z) /\
  forall b, In b bs -> face_bounds e H W D win b.
Proof.
  intros Sh PH PW PD He Hne Hv E.
  destruct bs as [|b0 tl]; [congruence|].
  unfold BBoxSafeRandomCropS_get_params_dependent_on_targets in E. rewrite Sh in E.
  cbn [List.length] in E.
  replace (Z.of_nat (S (List.length tl)) =? 0)%Z with false in E by (symmetry; apply Z.eqb_neq; lia).
  pose proof (union_in_unit_cube H W D (b0 :: tl) e b0 (Z.lt_le_incl _ _ PH) (Z.lt_le_incl _ _ PW) (Z.lt_le_incl _ _ PD)
                He Hv (or_introl eq_refl)) as UB.
  assert (UC : forall b, In b (b0 :: tl) -> covers e (union_of_bboxes H W D (b0 :: tl) e) b)
    by (intros b Hb; apply union_covers_every_box; exact Hb).
  destruct (union_of_bboxes H W D (b0 :: tl) e) as [[[[[x y] z] x2 ] y2] z2].
  destruct UB as (X1 & X2 & Y1 & Y2 & Z1 & Z2).
  res_inv.
  repeat match goal with Hd : draw_unit _ = Ok _ |- _ => apply draw_unit_ok in Hd; destruct Hd as [-> ?] end.
  unfold get_random_crop_coords. cbn zeta.
  match goal with
  | HY : (if Qge_bool (y2 + (1 - y2) * ?uy' - y * ?uy) 1 then _ else _) = Ok ?ty,
    HX : (if Qge_bool (x2 + (1 - x2) * ?ux' - x * ?ux) 1 then _ else _) = Ok ?tx,
    HZ : (if Qge_bool (z2 + (1 - z2) * ?uz' - z * ?uz) 1 then _ else _) = Ok ?tz |- _ =>
      destruct (corners x x2 ux ux') as (CX1 & CX2 & CX3 & CX4); try lra;
      destruct (corners y y2 uy uy') as (CY1 & CY2 & CY3 & CY4); try lra;
      destruct (corners z z2 uz uz') as (CZ1 & CZ2 & CZ3 & CZ4); try lra;
      pose proof (axis_case W (x * ux) (x2 + (1 - x2) * ux') tx PW CX1 ltac:(lra) CX4 HX) as AX;
      pose proof (axis_case H (y * uy) (y2 + (1 - y2) * uy') ty PH CY1 ltac:(lra) CY4 HY) as AY;
      pose proof (axis_case D (z * uz) (z2 + (1 - z2) * uz') tz PD CZ1 ltac:(lra) CZ4 HZ) as AZ;
      cbn zeta in AX, AY, AZ; clear HX HY HZ
  end.
  destruct AX as (AX1 & AX2 & AX3 & AX4 & AX5). destruct AY as (AY1 & AY2 & AY3 & AY4 & AY5).
  destruct AZ as (AZ1 & AZ2 & AZ3 & AZ4 & AZ5).
  assert (IW : 0 < inject_Z W) by (change 0 with (inject_Z 0); rewrite <- Zlt_Qlt; exact PW).
  assert (IH : 0 < inject_Z H) by (change 0 with (inject_Z 0); rewrite <- Zlt_Qlt; exact PH).
  assert (ID : 0 < inject_Z D) by (change 0 with (inject_Z 0); rewrite <- Zlt_Qlt; exact PD).
  split; [repeat split; lia|].
  intros b Hb. specialize (UC b Hb). destruct b as [[[[[xm ym] zm] xM] yM] zM]. cbn in UC.
  destruct UC as (U1 & U2 & U3 & U4 & U5 & U6).
  unfold face_bounds.
  repeat split.
  - eapply face_lt; [exact IW | | exact AX4]. lra.
  - eapply face_gt; [exact IW | | exact AX5]. lra.
  - eapply face_lt; [exact IH | | exact AY4]. lra.
  - eapply face_gt; [exact IH | | exact AY5]. lra.
  - eapply face_lt; [exact ID | | exact AZ4]. lra.
  - eapply face_gt; [exact ID | | exact AZ5]. lra.
Qed.

(* ---- the image path returns exactly the sampled size (the frame the box path normalises by) ---- *)
Lemma slice_in_range' n a b : (0 <= a <= b)%Z -> (b <= n)%Z -> slice_start_len n (Some a) (Some b) = (a, (b - a)%Z).
Proof.
  intros H1 H2. unfold slice_start_len, slice_bound.
  destruct (Z.ltb_spec a 0); [lia|]. destruct (Z.ltb_spec b 0); [lia|].
  f_equal; lia.
Qed.

Lemma random_crop_shape v H W D ch cw cd hs ws ds :
  vshape v = (H, W, D) ->
  (let '(x1, y1, z1, x2, y2, z2) := get_random_crop_coords H W D ch cw cd hs ws ds in
   0 <= x1 /\ x2 = x1 + cw /\ x2 <= W /\ 0 <= y1 /\ y2 = y1 + ch /\ y2 <= H /\ 0 <= z1 /\ z2 = z1 + cd /\ z2 <= D /\
   0 <= cw /\ 0 <= ch /\ 0 <= cd)%Z ->
  exists v', random_crop v ch cw cd hs ws ds = Ok v' /\ vshape v' = (ch, cw, cd).
Proof.
  intros Sh. unfold random_crop. rewrite Sh.
  destruct (get_random_crop_coords H W D ch cw cd hs ws ds) as [[[[[x1 y1] z1] x2] y2] z2].
  intros (A1 & A2 & A3 & B1 & B2 & B3 & C1 & C2 & C3 & P1 & P2 & P3).
  assert (E : (H <? ch)%Z || (W <? cw)%Z || (D <? cd)%Z = false).
  { repeat (apply orb_false_iff; split); apply Z.ltb_ge; lia. }
  rewrite E. eexists. split; [reflexivity|].
  unfold v_slice3. rewrite Sh. cbn [fst snd].
  rewrite (slice_in_range' H y1 y2), (slice_in_range' W x1 x2), (slice_in_range' D z1 z2) by lia.
  cbn. repeat f_equal; lia.
Qed.

(* ---- RandomCropNearBBox ---- *)
Open Scope Z_scope.
Theorem near_bbox_faces fh fw fd bx1 by1 bz1 bx2 by2 bz2 d1 d2 d3 d4 d5 d6 x1 y1 z1 x2 y2 z2 :
  0 <= bx1 < bx2 -> 0 <= by1 < by2 -> 0 <= bz1 < bz2 ->
  RandomCropNearBBoxS_get_params_dependent_on_targets (fh, fw, fd) (bx1, by1, bz1, bx2, by2, bz2) d1 d2 d3 d4 d5 d6
    = Ok (x1, y1, z1, x2, y2, z2) ->
  let sh := py_round ((inject_Z by2 - inject_Z by1) * fh) in
  let sw := py_round ((inject_Z bx2 - inject_Z bx1) * fw) in
  let sd := py_round ((inject_Z bz2 - inject_Z bz1) * fd) in
  (Z.max 0 (bx1 - sw) <= x1 <= Z.max 0 (bx1 + sw) /\ bx2 - sw <= x2 <= bx2 + sw /\ x1 < x2 /\ x1 < bx2) /\
  (Z.max 0 (by1 - sh) <= y1 <= Z.max 0 (by1 + sh) /\ by2 - sh <= y2 <= by2 + sh /\ y1 < y2 /\ y1 < by2) /\
  (Z.max 0 (bz1 - sd) <= z1 <= Z.max 0 (bz1 + sd) /\ bz2 - sd <= z2 <= bz2 + sd /\ z1 < z2 /\ z1 < bz2).
Proof.
  intros BX BY BZ.
  unfold RandomCropNearBBoxS_get_params_dependent_on_targets. cbn zeta. cbn beta iota.
  intros E. res_inv.
  repeat match goal with Hd : draw_int _ _ _ = Ok _ |- _ => apply draw_int_ok in Hd; destruct Hd as [-> ?] end.
  cbn zeta. repeat split; lia.
Qed.

Theorem near_bbox_frame v H W D x1 y1 z1 x2 y2 z2 :
  vshape v = (H, W, D) -> 0 <= x1 <= Z.min x2 W -> 0 <= y1 <= Z.min y2 H -> 0 <= z1 <= Z.min z2 D ->
  vshape (RandomCropNearBBox_apply v x1 y1 z1 x2 y2 z2 W H D) = (Z.min y2 H - y1, Z.min x2 W - x1, Z.min z2 D - z1) /\
  forall b, RandomCropNearBBox_apply_to_bbox b x1 y1 z1 x2 y2 z2 W H D =
            crop_bbox_by_coords b (x1, y1, z1, Z.min x2 W, Z.min y2 H, Z.min z2 D)
              (Z.min y2 H - y1) (Z.min x2 W - x1) (Z.min z2 D - z1) H W D.
Proof.
  intros Sh PX PY PZ. split; [|reflexivity].
  unfold RandomCropNearBBox_apply, clamping_crop. rewrite Sh. cbn zeta.
  unfold v_slice3. rewrite Sh. cbn [fst snd].
  rewrite (slice_in_range' H (Z.max y1 0) (Z.min y2 H)), (slice_in_range' W (Z.max x1 0) (Z.min x2 W)),
          (slice_in_range' D (Z.max z1 0) (Z.min z2 D)) by lia.
  cbn. repeat f_equal; lia.
Qed.
