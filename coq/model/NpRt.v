(* NpRt.v -- NumPy calls that can fail, as used by generated array code. *)
From Coq Require Import ZArith QArith List Bool String.
From DV.lib Require Import PyNum.
From DV.model Require Import Arrays.
Open Scope Z_scope.

Definition np_padmode (m : string) : option padmode :=
  if streq m "constant" then Some PConstant
  else if streq m "edge" then Some PEdge
  else if streq m "reflect" then Some PReflect
  else if streq m "symmetric" then Some PSymmetric
  else if streq m "wrap" then Some PWrap
  else None.

(* np.pad(img, pad_width, mode, constant_values): negative widths and unknown modes raise
   ValueError; reflect/symmetric/wrap of an empty axis raise ValueError as well *)
Definition np_pad (v : view) (pw : (Z * Z) * (Z * Z) * (Z * Z)) (mode : string) (value : Q) : res view :=
  let '((b0, a0), (b1, a1), (b2, a2)) := pw in
  if (b0 <? 0) || (a0 <? 0) || (b1 <? 0) || (a1 <? 0) || (b2 <? 0) || (a2 <? 0) then Raise ValueError
  else match np_padmode mode with
       | None => Raise ValueError
       | Some m => Ok (v_pad b0 a0 b1 a1 b2 a2 m value v)
       end.
