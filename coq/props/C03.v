(* C03 -- Keypoints follow the voxel they mark (lattice transforms: exactly), the in-plane
   angle follows the xy part of the same descriptor and is reported in [0, 2pi), the scale
   is multiplied by the zoom, and the visibility filter keeps exactly the in-frame keypoints. *)
From Coq Require Import ZArith QArith List Bool String.
From DV.lib Require Import PyNum PyRt Angle.
From DV.model Require Import Arrays Lattice.
From DV.gen Require Import Gen_keypoints_utils Gen_geom_functional Gen_crops_functional Gen_cls_geom Gen_cls_rotate.
From DV.proofs Require Import Tac KpTac C17_box Lat_vox Lat_kp Cls_lattice Cls_lattice2.
Open Scope Q_scope.

Theorem C03_flips : forall r c s k,
  kp_follows (VerticalFlip_apply_to_keypoint k c r s) k (lat_flip 0 (r, c, s)) /\
  kp_follows (HorizontalFlip_apply_to_keypoint k c r s) k (lat_flip 1 (r, c, s)) /\
  kp_follows (SliceFlip_apply_to_keypoint k c r s) k (lat_flip 2 (r, c, s)).
Proof.
  intros. unfold VerticalFlip_apply_to_keypoint, HorizontalFlip_apply_to_keypoint, SliceFlip_apply_to_keypoint.
  repeat split; [apply kp_vflip_lat | apply kp_hflip_lat | apply kp_zflip_lat].
Qed.
Print Assumptions C03_flips.

Theorem C03_Flip : forall r c s k d, In d flipcodes ->
  exists k', Flip_apply_to_keypoint k d c r s = Ok k' /\ kp_follows k' k (Lat_kp.lat_flipcode d (r, c, s)).
Proof. intros. unfold Flip_apply_to_keypoint. apply kp_flip_lat. assumption. Qed.
Print Assumptions C03_Flip.

Theorem C03_Transpose : forall r c s k, (let '(_, _, _, a, _) := k in 0 <= a /\ a < M) ->
  kp_follows (Transpose_apply_to_keypoint k c r s) k lat_transpose.
Proof. intros. unfold Transpose_apply_to_keypoint. apply kp_transpose_lat. assumption. Qed.
Print Assumptions C03_Transpose.

Theorem C03_RandomRotate90 : forall r c s k n ax, In n factors -> In ax planes ->
  exists k', RandomRotate90_apply_to_keypoint k n ax c r s = Ok k' /\
    let '(a1, a2) := plane_axes ax in
    kp_follows_with k' k (lat_rot90 n a1 a2 (r, c, s)) (rot90_angle n ax (kp_angle k)).
Proof. intros. apply RandomRotate90_keypoint; assumption. Qed.
Print Assumptions C03_RandomRotate90.

Theorem C03_PadIfNeeded : forall r c s k pt pb pl pr pf pk bm val mval,
  let '(x, y, z, a, sc) := k in
  let '(x', y', z', a', sc') := PadIfNeeded_apply_to_keypoint bm mval val k pt pb pl pr pf pk c r s in
  let '(ex, ey, ez) := lat_kp_xyz (lat_shift (- pt) (- pl) (- pf)) x y z in
  x' == ex /\ y' == ey /\ z' == ez /\ a' == a /\ sc' == sc.
Proof. intros. apply PadIfNeeded_keypoint. Qed.
Print Assumptions C03_PadIfNeeded.

(* every angle the decorated keypoint maps report is in [0, 2pi) *)
Theorem C03_angle_range : forall a, 0 <= angle_to_2pi_range a /\ angle_to_2pi_range a < M.
Proof. intros. rewrite norm_eq. apply norm_range. Qed.
Print Assumptions C03_angle_range.

(* scale is multiplied by the zoom (isotropic case: all three factors equal) *)
Theorem C03_scale : forall x y z a sc f,
  let '(x', y', z', a', sc') := keypoint_scale (x, y, z, a, sc) f f f in
  x' == x * f /\ y' == y * f /\ z' == z * f /\ a' == a /\ sc' == sc * f.
Proof.
  intros. unfold keypoint_scale. cbn. rewrite !Q.max_id. repeat split; reflexivity.
Qed.
Print Assumptions C03_scale.

(* a keypoint is dropped exactly when it is outside the frame and removal is enabled;
   survivors keep their relative order and all their fields *)
From DV.proofs Require Import KpFilter.
Theorem C03_visibility_filter : forall l r c s,
  filter_keypoints l r c s true = filter (kp_in_frame r c s) l /\ filter_keypoints l r c s false = l.
Proof. exact filter_keypoints_spec. Qed.
Print Assumptions C03_visibility_filter.

(* CropAndPad: the keypoint is shifted by the crop / pad offsets and, when the result is resized back
   (keep_size), zoomed by the per-axis factor of EVERY axis (an axis whose extent did not change has
   factor 1), its scale multiplied by the largest factor *)
From DV.proofs Require Import CropPadKp.
Theorem C03_crop_and_pad_keypoint : forall kp cp pp r c s rr rc rs keep,
  (0 < rr)%Z -> (0 < rc)%Z -> (0 < rs)%Z ->
  exists kp', crop_and_pad_keypoint kp cp pp r c s rr rc rs keep = Ok kp' /\
    kp_eq kp' (if keep then keypoint_scale (cp_shift kp cp pp) (inject_Z c / inject_Z rc) (inject_Z r / inject_Z rr)
                                          (inject_Z s / inject_Z rs)
               else cp_shift kp cp pp).
Proof. exact crop_and_pad_keypoint_spec. Qed.
Print Assumptions C03_crop_and_pad_keypoint.

(* RandomSizedCrop: the keypoint is shifted by the window the image path cuts and zoomed by promised/cropped on
   each axis; its scale is multiplied by the largest of the three zooms (keypoint_scale's convention) *)
From DV.proofs Require Import SizedCrop.
From DV.gen Require Import Gen_cls_crops_dicom.
Theorem C03_RandomSizedCrop_keypoint : forall sd sh sw x y z a sc hs ws ch cw cd ip c r s,
  (0 < ch)%Z -> (0 < cw)%Z -> (0 < cd)%Z ->
  let '(x1, y1, z1, x2, y2, z2) := get_random_crop_coords r c s ch cw cd hs ws 0 in
  exists x' y' z' sc',
    RandomSizedCrop_apply_to_keypoint sd sh sw (x, y, z, a, sc) hs ws ch cw cd ip c r s = Ok (x', y', z', a, sc') /\
    x' == (x - inject_Z x1) * (inject_Z sw / inject_Z cw) /\
    y' == (y - inject_Z y1) * (inject_Z sh / inject_Z ch) /\
    z' == (z - inject_Z z1) * (inject_Z sd / inject_Z cd) /\
    sc' == sc * Qmax (Qmax (inject_Z sw / inject_Z cw) (inject_Z sh / inject_Z ch)) (inject_Z sd / inject_Z cd).
Proof. exact RandomSizedCrop_keypoint. Qed.
Print Assumptions C03_RandomSizedCrop_keypoint.

(* every named parameter of a target path (apply, apply_to_mask, apply_to_bbox, apply_to_keypoint, ...) of every
   transform class is one the class's parameter methods put into the shared parameter dictionary, so no keypoint path can
   silently fall back to a default plane / offset / factor while the image follows the drawn one; the one formal
   that is never supplied, RandomSizedCrop's d_start, is unsupplied for every target alike (regenerated table) *)
From DV.gen Require Import Gen_classtab.
From DV.proofs Require Import ClassFacts CF_C01.
Theorem C03_every_parameter_a_target_path_names_is_supplied : forallb param_row_ok param_table = true.
Proof. exact target_path_parameters_are_supplied. Qed.
Print Assumptions C03_every_parameter_a_target_path_names_is_supplied.

(* the crop CLASSES move the keypoint by the origin of the window their image path cuts ([y1,y2) x [x1,x2) x [z1,z2)):
   each coordinate minus ITS OWN window minimum, angle and scale untouched -- Crop, RandomCropFromBorders and
   RandomCropNearBBox (generated class methods), for every window, frame and real keypoint *)
From DV.gen Require Import Gen_cls_crops.
Theorem C03_crop_classes_shift_the_keypoint_by_the_window_origin : forall x y z a sc x1 x2 y1 y2 z1 z2 c r s,
  let moved := (x - inject_Z x1, y - inject_Z y1, z - inject_Z z1, a, sc) in
  Crop_apply_to_keypoint x2 x1 y2 y1 z2 z1 (x, y, z, a, sc) c r s = moved /\
  RandomCropFromBorders_apply_to_keypoint (x, y, z, a, sc) x1 x2 y1 y2 z1 z2 c r s = moved /\
  RandomCropNearBBox_apply_to_keypoint (x, y, z, a, sc) x1 y1 z1 x2 y2 z2 c r s = moved.
Proof. intros. repeat split; reflexivity. Qed.
Print Assumptions C03_crop_classes_shift_the_keypoint_by_the_window_origin.
