(* C15_fw.v -- scheduling laws of the operator model (Framework.run). *)
From Coq Require Import List QArith Bool Arith Lia Lqa.
Import ListNotations.
From DV.model Require Import Framework FrameworkCheck.
From DV.proofs Require Import Fw.
Open Scope Q_scope.

Section Laws.
Variable data : Type.
Variable sem : nat -> data -> data.
Notation run := (run data sem).

Lemma Qltb_spec a b : reflect (a < b) (Qltb a b).
Proof.
  unfold Qltb. destruct (Qle_bool b a) eqn:E; cbn; constructor.
  - apply Qle_bool_iff in E. lra.
  - assert (N : ~ b <= a) by (intro L; apply Qle_bool_iff in L; congruence). lra.
Qed.

(* a leaf fires iff  u < p  or  always_apply  or  force_apply ; it always reads one draw *)
Lemma leaf_fires_iff id p a force d u ds :
  run (Leaf id p a) force d (DU u :: ds) =
    if Qltb u p || a || force then Some (sem id d, [id], ds) else Some (d, [], ds).
Proof. reflexivity. Qed.

Lemma leaf_p1_always id a force d u ds : 0 <= u -> u < 1 ->
  run (Leaf id 1 a) force d (DU u :: ds) = Some (sem id d, [id], ds).
Proof. intros U0 U1. cbn. destruct (Qltb_spec u 1); [reflexivity | lra]. Qed.

Lemma leaf_p0_never id d u ds : 0 <= u ->
  run (Leaf id 0 false) false d (DU u :: ds) = Some (d, [], ds).
Proof. intros U0. cbn. destruct (Qltb_spec u 0); [lra | reflexivity]. Qed.

Lemma leaf_forced_or_always id p a force d u ds : a || force = true ->
  run (Leaf id p a) force d (DU u :: ds) = Some (sem id d, [id], ds).
Proof. intros H. cbn. destruct (Qltb u p); cbn; [reflexivity|]. rewrite H. reflexivity. Qed.

(* OneOf: when it fires it calls exactly the child chosen by the draw, forced *)
Lemma oneof_fires p k kids d u i ds : u < p ->
  run (OneOfN p (k :: kids)) false d (DU u :: DC [i] :: ds) =
  pick_with data (fun t f d ds => run t f d ds) (k :: kids) i d ds.
Proof. intros H. cbn. destruct (Qltb_spec u p); [reflexivity | tauto]. Qed.
Lemma oneof_forced p k kids d i ds :
  run (OneOfN p (k :: kids)) true d (DC [i] :: ds) =
  pick_with data (fun t f d ds => run t f d ds) (k :: kids) i d ds.
Proof. reflexivity. Qed.
Lemma oneof_skips p k kids d u ds : ~ u < p ->
  run (OneOfN p (k :: kids)) false d (DU u :: ds) = Some (d, [], ds).
Proof. intros H. cbn. destruct (Qltb_spec u p); [tauto | reflexivity]. Qed.

(* the child picked by OneOf among leaves fires, and nothing else does *)
Lemma pick_leaf kids i id p a d ds u :
  nth_error kids i = Some (Leaf id p a) ->
  pick_with data (fun t f d ds => run t f d ds) kids i d (DU u :: ds) = Some (sem id d, [id], ds).
Proof.
  revert i. induction kids as [|k tl IH]; intros i H; destruct i; cbn in *; try discriminate.
  - inversion H; subst. cbn. destruct (Qltb u p); cbn; [reflexivity|]. destruct a; reflexivity.
  - apply IH. exact H.
Qed.

(* SomeOf: exactly the n drawn children, in drawn order, each forced *)
Lemma someof_forced p n rep k kids d idx ds : length idx = n ->
  run (SomeOfN p n rep (k :: kids)) true d (DC idx :: ds) =
  picks_with data (fun t f d ds => run t f d ds) (k :: kids) idx d ds.
Proof. intros H. cbn. rewrite H, Nat.eqb_refl. reflexivity. Qed.

(* OneOrOther: exactly one of its two children, whatever force says *)
Lemma oneorother a b p force d u ds :
  run (OneOrOtherN p [a; b]) force d (DU u :: ds) =
  if Qltb u p then run a true d ds else run b true d ds.
Proof. cbn. destruct (Qltb u p); reflexivity. Qed.

(* Compose that runs / Sequential: children in listed order *)
Lemma compose_runs_in_order p kids d u ds : u < p ->
  run (Comp p kids) false d (DU u :: ds) = seq_with data (fun t f d ds => run t f d ds) kids d ds.
Proof. intros H. cbn. destruct (Qltb_spec u p); [reflexivity | tauto]. Qed.
Lemma compose_skipped p kids d u ds : ~ u < p ->
  run (Comp p kids) false d (DU u :: ds) = fire_always data sem (always_of_list kids) d ds.
Proof. intros H. cbn. destruct (Qltb_spec u p); [tauto | reflexivity]. Qed.

(* n leaves with p = 1 in a sequence fire in listed order *)
Fixpoint ones (n : nat) : list draw := match n with O => [] | S m => DU 0 :: ones m end.
Lemma seq_order (ids : list nat) d ds :
  seq_with data (fun t f d ds => run t f d ds) (map (fun i => Leaf i 1 false) ids) d (ones (length ids) ++ ds) =
  Some (fold_left (fun d i => sem i d) ids d, ids, ds).
Proof.
  revert d. induction ids as [|i tl IH]; intros d; cbn; [reflexivity|].
  rewrite IH. reflexivity.
Qed.

(* normalised weights handed to choice: p_i / sum p *)
Notation weights := FrameworkCheck.weights.
Lemma weights_sum kids : ~ fold_right (fun k acc => node_p k + acc) 0 kids == 0 ->
  fold_right Qplus 0 (weights kids) == 1.
Proof.
  intros H. unfold FrameworkCheck.weights. set (s := fold_right (fun k acc => node_p k + acc) 0 kids) in *.
  assert (G : forall l, fold_right Qplus 0 (map (fun k => node_p k / s) l) ==
                        fold_right (fun k acc => node_p k + acc) 0 l / s).
  { induction l as [|k tl IH]; cbn; [unfold Qdiv; ring|]. rewrite IH. unfold Qdiv. ring. }
  rewrite G. unfold Qdiv. apply Qmult_inv_r. exact H.
Qed.

(* the set of draws on which a leaf fires has measure p: it is the interval [0, p) *)
Lemma firing_set id p d u ds : 0 <= u ->
  (exists d', run (Leaf id p false) false d (DU u :: ds) = Some (d', [id], ds)) <-> u < p.
Proof.
  intros U0. cbn. destruct (Qltb_spec u p); cbn; split; intros H; try tauto.
  - eexists; reflexivity.
  - destruct H as [d' H]. discriminate.
Qed.

End Laws.
