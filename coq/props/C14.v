(* C14 -- Serialization round-trip preserves behaviour: every constructor argument of every
   transform class is persisted, and the parameter / composition classes persist each of their
   constructor arguments under its own name from the attribute of that name.  The tables are
   regenerated from the source by translator/classtab.py on every run. *)
From Coq Require Import List String Bool.
Import ListNotations.
From DV.gen Require Import Gen_classtab.
From DV.proofs Require Import ClassFacts CF_C14.
Open Scope string_scope.

(* full strength: every exported transform persists every constructor argument.  One class is an
   open known finding (Equalize: mask / mask_params), so what is proved is the statement for all
   other classes; C14_persist_complete_refuted exhibits the exception. *)
Definition C14_persist_complete_statement : Prop := forallb persist_complete class_table = true.

Theorem C14_persist_complete_partial :
  forallb (fun c => persist_complete c || mem (c_name c) c14_known) class_table = true.
Proof. exact persist_complete_partial. Qed.
Print Assumptions C14_persist_complete_partial.

Theorem C14_params_and_operators_persist_their_arguments : forallb todict_row_ok todict_table = true.
Proof. exact todict_ok. Qed.
Print Assumptions C14_params_and_operators_persist_their_arguments.

Theorem C14_tables_are_not_empty : Nat.leb 40 (List.length class_table) = true /\ Nat.leb 300 functions_analysed = true.
Proof. exact table_nonempty. Qed.
Print Assumptions C14_tables_are_not_empty.

(* the two arguments EVERY transform persists, `always_apply` and `p`, are written from the attributes of the same
   name -- the constructor values themselves, not a derived ("effective") value: an always-apply transform keeps its
   own p, which is its selection weight inside OneOf / SomeOf (regenerated from BasicTransform.get_base_init_args) *)
Theorem C14_every_transform_persists_its_own_p_and_always_apply :
  base_args_table = [("always_apply", "always_apply"); ("p", "p")].
Proof. exact base_args_ok. Qed.
Print Assumptions C14_every_transform_persists_its_own_p_and_always_apply.
