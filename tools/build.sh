#!/bin/bash
# Regenerate the Coq model from the repository's working tree and (re)build.
# usage: build.sh [make targets...]   (default: all)
set -u
VERIF="$(cd "$(dirname "$0")/.." && pwd)"
export VERIF_REPO="${VERIF_REPO:-/repo}"
cd "$VERIF"
mkdir -p coq/gen work
(
  flock 9
  /venv/bin/python translator/py2coq.py coq/gen > work/translate.log 2>&1
  /venv/bin/python translator/classtab.py coq/gen >> work/translate.log 2>&1 || true
  cd coq
  { echo "-Q lib DV.lib"; echo "-Q gen DV.gen"; echo "-Q model DV.model"; echo "-Q proofs DV.proofs";
    echo "-Q props DV.props"; echo "-Q findings DV.findings";
    ls lib/*.v gen/*.v model/*.v proofs/*.v props/*.v findings/*.v 2>/dev/null; } > _CoqProject.new
  if ! cmp -s _CoqProject.new _CoqProject || [ ! -f Makefile ]; then
    mv _CoqProject.new _CoqProject
    coq_makefile -f _CoqProject -o Makefile > /dev/null 2>&1
  else
    rm -f _CoqProject.new
  fi
  # every generated module first (the correspondence case files import generated modules that need not be in the
  # dependency closure of the requested property: a stale .vo there gives "inconsistent assumptions")
  timeout 3000 make -k -j"${VERIF_JOBS:-12}" COQC="timeout ${VERIF_COQC_TIMEOUT:-900} coqc" \
      $(ls lib/*.v model/*.v gen/*.v | sed 's/\.v$/.vo/') > ../work/gen_build.log 2>&1
  if [ $# -eq 0 ]; then
    timeout 3000 make -k -j"${VERIF_JOBS:-12}" COQC="timeout ${VERIF_COQC_TIMEOUT:-900} coqc" 2>&1
  else
    timeout 3000 make -k -j"${VERIF_JOBS:-12}" COQC="timeout ${VERIF_COQC_TIMEOUT:-900} coqc" "$@" 2>&1
  fi
) 9> work/.build.lock
