"""Default argument generators for every translated function (by parameter name/type)."""
import fractions
import random

from gen import (Fr, PLANES, BOX_FORMATS, KP_FORMATS, dyadic, size, norm_box, keypoint, coords6)


def tt(t):
    if isinstance(t, list):
        return tuple(tt(x) for x in t)
    return t


def gen_args(rng, f, malformed_rate=0.15):
    """draw one argument tuple for translated function f (manifest record)"""
    mal = rng.random() < malformed_rate
    params = [(p, tt(t)) for p, t in f['params']]
    vals = {}
    # frame first
    for p, t in params:
        if p in ('rows', 'cols', 'slices', 'height', 'width', 'depth'):
            vals[p] = size(rng, malformed=mal and rng.random() < 0.3)
    rows = vals.get('rows', vals.get('height', 8))
    cols = vals.get('cols', vals.get('width', 8))
    slices = vals.get('slices', vals.get('depth', 8))
    for p, t in params:
        if t == 'arr':
            dims = rng.sample([1, 2, 3, 4, 5, 6, 7], 3)
            vals[p] = tuple(dims)
            rows, cols, slices = dims
    if f['name'] in ('resize', '_resize', 'scale', 'Resize_apply', 'Resize_apply_to_mask', 'RandomScale_apply', 'RandomScale_apply_to_mask',
                     'longest_max_size', 'smallest_max_size', 'LongestMaxSize_apply', 'LongestMaxSize_apply_to_mask',
                     'SmallestMaxSize_apply', 'SmallestMaxSize_apply_to_mask'):
        # SciPy zoom: voxel-exact comparison is possible for order 0 only; keep the rendered volumes small
        for p, t in params:
            if p == 'interpolation':
                vals[p] = 0
            elif p in ('height', 'width', 'depth'):
                vals[p] = rng.randint(1, 11) if not (mal and rng.random() < 0.3) else 0
            elif p == 'dsize':
                vals[p] = (rng.randint(1, 11), rng.randint(1, 11), rng.randint(1, 11))
            elif p == 'scale':
                vals[p] = Fr(rng.randint(2, 20), 8)
            elif p == 'max_size':
                dims = next((vals[q] for q, tq in params if tq == 'arr' and q in vals), (4, 4, 4))
                top = 12 if 'ongest' in f['name'] else min(12, 2 * min(dims) + 1)     # keep the rendered result small
                vals[p] = rng.randint(1, top)
    if f['name'] in ('RandomSizedCrop_apply', 'RandomSizedBBoxSafeCrop_apply'):
        for p, t in params:
            if p == 'interpolation':
                vals[p] = 0          # voxel-exact comparison (order >= 1 is a Mix cell in the model)
    if f['name'] in ('crop_and_pad', 'CropAndPad_apply', 'CropAndPad_apply_to_mask'):
        # image path of CropAndPad: integer fill values (the test volume is an integer label array), nearest
        # interpolation (voxel-exact comparison), frame = the array's own shape
        dims = next((vals[q] for q, tq in params if tq == 'arr' and q in vals), None)
        for p, t in params:
            if p == 'interpolation':
                vals[p] = 0
            elif p in ('pad_value', 'pad_value_mask'):
                vals[p] = Fr(-rng.randint(1, 9))
            elif dims is not None and p in ('rows', 'cols', 'slices'):
                vals[p] = dims[('rows', 'cols', 'slices').index(p)]
            elif p == 'pad_mode':
                vals[p] = rng.choice(['constant', 'constant', 'edge', 'reflect', 'symmetric', 'wrap']) if not mal else 'maximum'
            elif p == 'keep_size':
                vals[p] = rng.random() < 0.5
    for p, t in params:
        if p in vals:
            continue
        if t == ('tuple', ('Z', 'Z')) and p == 'axes':
            vals[p] = tuple(rng.sample([0, 1, 2], 2))
        elif p == 'pad_width':
            vals[p] = tuple((rng.randint(0, 3), rng.randint(0, 3)) for _ in range(3))
            if mal and rng.random() < 0.5:
                vals[p] = ((-1, 2),) + vals[p][1:]
        elif p in ('h_pad_top', 'h_pad_bottom', 'w_pad_left', 'w_pad_right', 'd_pad_front', 'd_pad_back'):
            vals[p] = rng.randint(0, 4) if not (mal and rng.random() < 0.2) else -1
        elif p in ('min_height', 'min_width', 'min_depth'):
            vals[p] = rng.randint(1, 10)
        elif p == 'border_mode':
            vals[p] = rng.choice(['constant', 'reflect', 'nearest', 'mirror', 'wrap']) if not mal else 'edge'
        elif p in ('value', 'fill_value') and t == 'Q':
            vals[p] = Fr(-rng.randint(1, 9))
        elif p == 'holes':
            hs = []
            for _ in range(rng.randint(0, 3)):
                c = coords6(rng, rows, cols, slices)
                if rng.random() < 0.2:
                    c = tuple(x + rng.randint(-2, 3) for x in c)
                hs.append(c)
            vals[p] = hs
        elif p in ('crop_height', 'crop_width', 'crop_depth'):
            n = {'crop_height': rows, 'crop_width': cols, 'crop_depth': slices}[p]
            vals[p] = rng.randint(1, max(1, n)) if not (mal and rng.random() < 0.3) else rng.choice([0, n + 2, -1])
        elif p in ('result_rows', 'result_cols', 'result_slices'):
            vals[p] = size(rng, malformed=mal and rng.random() < 0.3)
        elif p in ('h_start', 'w_start', 'd_start'):
            vals[p] = rng.choice([Fr(0), dyadic(rng, 0, 1, 6), Fr(63, 64), Fr(rng.random())])
            if vals[p] >= 1:
                vals[p] = Fr(63, 64)
        elif p == 'factor':
            vals[p] = rng.randint(0, 3) if not mal else rng.choice([-1, 4, 7])
        elif p == 'd':
            vals[p] = rng.randint(-1, 2) if not mal else rng.choice([-2, 3])
        elif p == 'axis':
            vals[p] = rng.randint(0, 1) if not mal else rng.choice([-1, 2])
        elif p == 'axes':
            vals[p] = rng.choice(PLANES) if not mal else rng.choice(['zz', 'yx', ''])
        elif p in ('source_format', 'target_format'):
            fmts = KP_FORMATS if 'keypoint' in f['name'] else BOX_FORMATS
            vals[p] = rng.choice(fmts) if not mal else rng.choice(['pascal', 'xy', 'dicaugment_3d'])
        elif t == 'bool':
            vals[p] = rng.random() < 0.5
        elif p in ('bbox',):
            vals[p] = None  # below (needs format)
        elif p in ('keypoint', 'kp'):
            vals[p] = keypoint(rng, rows, cols, slices, valid=not (mal or rng.random() < 0.15))
        elif p == 'keypoints':
            vals[p] = [keypoint(rng, rows, cols, slices, valid=rng.random() < 0.6) for _ in range(rng.randint(0, 5))]
        elif p == 'bboxes':
            vals[p] = [norm_box(rng, valid=rng.random() < 0.6) for _ in range(rng.randint(0, 5))]
        elif p == 'crop_coords':
            vals[p] = coords6(rng, rows, cols, slices)
        elif p in ('x_min', 'y_min', 'z_min', 'x_max', 'y_max', 'z_max'):
            if 'x_min' not in vals or p == 'x_min':
                c6 = coords6(rng, rows, cols, slices)
                for nm, v in zip(('x_min', 'y_min', 'z_min', 'x_max', 'y_max', 'z_max'), c6):
                    vals[nm] = v
        elif p in ('crop_params', 'pad_params'):
            if rng.random() < 0.3:
                vals[p] = None
            elif p == 'crop_params':
                vals[p] = coords6(rng, rows, cols, slices)
            else:
                vals[p] = tuple(rng.randint(0, 5) for _ in range(6))
        elif t == 'bmask':
            sh = (rows, cols, slices)
            n = rng.randint(0, max(1, rows * cols * slices // 3))
            vals[p] = (sh, sorted({(rng.randrange(rows), rng.randrange(cols), rng.randrange(slices)) for _ in range(n)}))
        elif p == 'drop_value':
            vals[p] = Fr(rng.choice([0, 0, -3, -7, 5]))
        elif t == 'hdr':
            vals[p] = (rng.choice([Fr(7, 10), Fr(1, 2), Fr(1), dyadic(rng, 0, 2, 4) + Fr(1, 16)]),
                       rng.choice([Fr(2, 5), Fr(1, 2), Fr(3, 2), dyadic(rng, 0, 2, 4) + Fr(1, 16)]),
                       rng.choice([Fr(1), Fr(2), Fr(1, 2)]), rng.choice([Fr(-1024), Fr(0), Fr(10), Fr(21, 2)]),
                       7, rng.choice(['int', 'float']))
        elif p == 'img' and t == 'Q':
            vals[p] = rng.choice([rng.randint(-2000, 4000), rng.randint(-10, 10), 0, 3071])
        elif p == 'slope':
            vals[p] = rng.choice([Fr(1), Fr(2), Fr(1, 2), Fr(3, 2), Fr(1, 4)])
        elif p == 'intercept':
            vals[p] = rng.choice([Fr(-1024), Fr(0), Fr(10), Fr(21, 2), Fr(-1, 2)])
        elif p in ('scale_x', 'scale_y', 'scale_z'):
            vals[p] = dyadic(rng, 0, 4, 3) + Fr(1, 8)
        elif p == 'erosion_rate':
            vals[p] = dyadic(rng, 0, 1, 3)
        elif p.startswith('min_') and t == 'Q':
            vals[p] = rng.choice([Fr(0), Fr(0), dyadic(rng, 0, 1, 3), dyadic(rng, 0, 30, 1)])
        elif p == 'angle':
            vals[p] = dyadic(rng, -20, 20, 3)
        elif t == ('opt', 'Q'):
            vals[p] = rng.choice([None, Fr(-rng.randint(1, 9))])
        elif t == ('opt', 'Z'):
            vals[p] = rng.choice([None, rng.randint(1, 9)])
        elif t == 'Q':
            vals[p] = dyadic(rng, -4, 4, 3)
        elif t == 'Z':
            vals[p] = rng.randint(-3, 12)
        else:
            raise ValueError('no generator for %s of %s' % (p, f['name']))
    if 'bbox' in vals and vals['bbox'] is None:
        b = norm_box(rng, valid=not (mal or rng.random() < 0.2))
        fmt = vals.get('source_format')
        if fmt in ('coco_3d', 'pascal_voc_3d'):
            x1, y1, z1, x2, y2, z2 = b
            x1, x2, y1, y2, z1, z2 = x1 * cols, x2 * cols, y1 * rows, y2 * rows, z1 * slices, z2 * slices
            b = (x1, y1, z1, x2, y2, z2) if fmt == 'pascal_voc_3d' else (x1, y1, z1, x2 - x1, y2 - y1, z2 - z1)
        elif fmt == 'yolo_3d':
            x1, y1, z1, x2, y2, z2 = b
            b = ((x1 + x2) / 2, (y1 + y2) / 2, (z1 + z2) / 2, x2 - x1, y2 - y1, z2 - z1)
        vals['bbox'] = b
    return tuple(vals[p] for p, _ in params)
