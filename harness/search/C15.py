"""C15 failing-input search: scheduling clauses on the implementation with user-defined
recording transforms: p=1 / always / forced fire, p=0 never; OneOf exactly one child, SomeOf
exactly n (distinct without replacement), OneOrOther exactly one, listed order, skipped Compose
only always-apply; thorough tier: firing frequencies vs configured probabilities (6-sigma)."""
import math
import random

import numpy as np

import implrun as R

A = R.A
CALLS = []


class Rec(A.ImageOnlyTransform):
    def __init__(self, ident=0, always_apply=False, p=0.5):
        super().__init__(always_apply, p)
        self.ident = ident

    def apply(self, img, **params):
        CALLS.append(self.ident)
        return img

    def get_transform_init_args_names(self):
        return ('ident',)


IMG = np.zeros((2, 3, 4), np.uint8)


def leaves(ps, always=None):
    return [Rec(ident=i, p=p, always_apply=bool(always and always[i])) for i, p in enumerate(ps)]


def run_once(pipe, seed):
    del CALLS[:]
    random.seed(seed)
    pipe(image=IMG)
    return list(CALLS)


def structural(rng, viol, evals):
    def bad(site, case, obs, exp):
        viol.append({'site': 'C15:' + site, 'case': case, 'observed': obs, 'expected': exp})
    for _ in range(evals):
        seed = rng.randint(0, 10 ** 9)
        k = rng.randint(1, 5)
        ps = [rng.choice([0.0, 0.25, 0.5, 1.0]) for _ in range(k)]
        if sum(ps) == 0:
            ps[0] = 0.5
        # OneOf(p=1): exactly one child
        case = {'op': 'OneOf', 'ps': ps, 'seed': seed}
        got = run_once(A.Compose([A.OneOf(leaves(ps), p=1.0)]), seed)
        if len(got) != 1 or ps[got[0]] == 0.0:
            bad('OneOf:exactly-one', case, got, 'one child with positive weight')
        # SomeOf
        n = rng.randint(1, 6)
        rep = rng.random() < 0.5
        nz = sum(1 for p in ps if p > 0)
        if not rep:
            n = rng.randint(1, nz)
        case = {'op': 'SomeOf', 'ps': ps, 'n': n, 'replace': rep, 'seed': seed}
        got = run_once(A.Compose([A.SomeOf(leaves(ps), n=n, replace=rep, p=1.0)]), seed)
        if len(got) != n or (not rep and len(set(got)) != n):
            bad('SomeOf:exactly-n', case, got, '%d children%s' % (n, '' if rep else ', distinct'))
        # OneOrOther
        case = {'op': 'OneOrOther', 'p': 0.5, 'seed': seed}
        got = run_once(A.Compose([A.OneOrOther(Rec(ident=0, p=0.0), Rec(ident=1, p=0.0), p=rng.choice([0.0, 0.3, 1.0]))]), seed)
        if len(got) != 1:
            bad('OneOrOther:exactly-one', case, got, 'exactly one of the two')
        # p=1 / always / p=0, order
        ps2 = [rng.choice([0.0, 1.0]) for _ in range(k)]
        alw = [rng.random() < 0.3 for _ in range(k)]
        exp = [i for i in range(k) if ps2[i] == 1.0 or alw[i]]
        for opn in ('Compose', 'Sequential'):
            case = {'op': opn, 'ps': ps2, 'always': alw, 'seed': seed}
            inner = leaves(ps2, alw)
            pipe = A.Compose(inner, p=1.0) if opn == 'Compose' else A.Compose([A.Sequential(inner, p=rng.random())], p=1.0)
            got = run_once(pipe, seed)
            if got != exp:
                bad('%s:order/p01' % opn, case, got, exp)
        # skipped Compose: only the always-apply leaves (also inside nested operators)
        case = {'op': 'Compose(p=0)', 'ps': ps2, 'always': alw, 'seed': seed}
        inner = leaves(ps2, alw)
        nested = A.Compose([inner[0], A.OneOf(inner[1:], p=1.0)] if len(inner) > 1 and sum(ps2[1:]) > 0 else inner, p=0.0)
        got = run_once(nested, seed)
        if got != [i for i in range(k) if alw[i]]:
            bad('Compose:skipped', case, got, [i for i in range(k) if alw[i]])
        # the recording subclass is a Compose as well: its own p decides, a skipped one applies the always-apply leaves only
        case = {'op': 'ReplayCompose(p=0)', 'ps': ps2, 'always': alw, 'seed': seed}
        got = run_once(A.ReplayCompose(leaves(ps2, alw), p=0.0), seed)
        if got != [i for i in range(k) if alw[i]]:
            bad('ReplayCompose:skipped', case, got, [i for i in range(k) if alw[i]])
        # ... at every nesting depth: the leaves wrapped in 1..4 operators of random kinds
        depth = rng.randint(1, 4)
        kinds = [rng.choice(['Sequential', 'OneOf', 'SomeOf', 'OneOrOther', 'Compose']) for _ in range(depth)]
        case = {'op': 'Compose(p=0)-nested', 'ps': [0.5] * k, 'always': alw, 'wrappers': kinds, 'seed': seed}
        inner = leaves([0.5] * k, alw)      # the leaves' own p is irrelevant under a skipped Compose
        node = inner
        for kd in kinds:
            if kd == 'OneOrOther':
                node = [A.OneOrOther(transforms=(node if len(node) == 2 else [A.Sequential(node, p=0.5), Rec(ident=99, p=0.5)]), p=0.5)]
            elif kd == 'SomeOf':
                node = [A.SomeOf(node, n=1, p=0.5)]
            elif kd == 'OneOf':
                node = [A.OneOf(node, p=0.5)]
            elif kd == 'Compose':
                node = [A.Compose(node, p=0.5)]
            else:
                node = [A.Sequential(node, p=0.5)]
        got = run_once(A.Compose([Rec(ident=50, p=1.0, always_apply=True)] + node, p=0.0), seed)
        if got != [50] + [i for i in range(k) if alw[i]]:
            bad('Compose:skipped-nested', case, got, [50] + [i for i in range(k) if alw[i]])
        # the selection weights are the children's own p / sum(p), whatever their always_apply flags
        wp = [rng.choice([0.1, 0.25, 0.5, 1.0]) for _ in range(max(2, k))]
        wa = [rng.random() < 0.4 for _ in wp]
        case = {'op': 'OneOf-weights', 'ps': wp, 'always': wa, 'seed': seed}
        for opn in ('OneOf', 'SomeOf'):
            node = A.OneOf(leaves(wp, wa), p=1.0) if opn == 'OneOf' else A.SomeOf(leaves(wp, wa), n=1, p=1.0)
            got_w = [float(x) for x in node.transforms_ps]
            exp_w = [x / sum(wp) for x in wp]
            if any(abs(g - e) > 1e-12 for g, e in zip(got_w, exp_w)):
                bad('%s:weights' % opn, case, got_w, exp_w)
        # forced application of a pipeline that would not fire: `force_apply` is documented as "bool or int"
        for fa in (True, 1):
            case = {'op': 'Compose(p=0)(force_apply=%r)' % fa, 'seed': seed}
            del CALLS[:]
            random.seed(seed)
            A.Compose([Rec(ident=3, p=1.0), A.OneOf([Rec(ident=4, p=0.5)], p=1.0)], p=rng.choice([0.0, 0.3]))(image=IMG, force_apply=fa)
            if list(CALLS) != [3, 4]:
                bad('forced:compose', case, list(CALLS), [3, 4])
        # forced application through a nested operator: OneOf -> OneOf -> leaf with p tiny but > 0
        case = {'op': 'OneOf(OneOf)', 'seed': seed}
        got = run_once(A.Compose([A.OneOf([A.OneOf([Rec(ident=7, p=1e-9)], p=1e-9)], p=1.0)]), seed)
        if got != [7]:
            bad('forced:nested', case, got, [7])


def frequencies(rng, viol, n_calls):
    """6-sigma binomial bounds: false-alarm probability below 1e-8 per estimate"""
    def within(count, n, p):
        sd = math.sqrt(max(n * p * (1 - p), 1e-12))
        return abs(count - n * p) <= 6 * sd + 1
    ps = [0.2, 0.3, 0.5]
    w = [p / sum(ps) for p in ps]
    pipe = A.Compose([A.OneOf(leaves(ps), p=0.7), Rec(ident=10, p=0.35)])
    counts = {}
    fired_oneof = 0
    random.seed(rng.randint(0, 10 ** 9))
    for _ in range(n_calls):
        del CALLS[:]
        pipe(image=IMG)
        for c in CALLS:
            counts[c] = counts.get(c, 0) + 1
        if any(c < 10 for c in CALLS):
            fired_oneof += 1
    case = {'ps': ps, 'oneof_p': 0.7, 'leaf_p': 0.35, 'calls': n_calls}
    if not within(fired_oneof, n_calls, 0.7):
        viol.append({'site': 'C15:freq:OneOf.p', 'case': case, 'observed': fired_oneof / n_calls, 'expected': 0.7})
    if not within(counts.get(10, 0), n_calls, 0.35):
        viol.append({'site': 'C15:freq:leaf.p', 'case': case, 'observed': counts.get(10, 0) / n_calls, 'expected': 0.35})
    for i in range(3):
        if not within(counts.get(i, 0), n_calls, 0.7 * w[i]):
            viol.append({'site': 'C15:freq:weights', 'case': case, 'observed': counts.get(i, 0) / n_calls,
                         'expected': 0.7 * w[i]})


def run(seed=0, tier='quick', hints=None, broken=False):
    rng = random.Random(seed * 7919 + 15)
    viol = []
    n = 150 if tier == 'quick' else 4000
    if broken:
        n *= 3
    structural(rng, viol, n)
    nf = 4000 if tier == 'quick' else 100000
    frequencies(rng, viol, nf)
    return {'violations': viol, 'info': {'evaluations': n * 7 + nf, 'distinct': n * 7,
                                         'what': 'recording transforms under the five operators; frequency estimates over %d seeded calls' % nf}}


def replay(v):
    rng = random.Random(v['case'].get('seed', 0))
    viol = []
    if v['site'].startswith('C15:freq'):
        frequencies(rng, viol, v['case']['calls'])
    else:
        structural(random.Random(0), viol, 300)
    return any(x['site'] == v['site'] for x in viol)
