(* C05_labels.v -- labels stay attached: what comes out of strip / labels_of after any
   sequence of geometry maps and filters is the survivors' own inline fields and labels. *)
From Coq Require Import List Arith Lia.
Import ListNotations.
From DV.model Require Import Labels.

Section Thm.
Variables G L : Type.

Theorem labels_follow (ss : list (step G)) (items : list (item G L)) (k : nat) :
  Forall (fun it => length (snd it) = k) items ->
  let out := run_steps G L ss (map (attach G L) items) in
  let surv := run_steps_i G L ss items in
  map (strip G L k) out = map (fun it => (fst (fst it), snd (fst it))) surv /\
  map (labels_of G L k) out = map (fun it => snd it) surv /\
  length (map (labels_of G L k) out) = length out.
Proof.
  intros H out surv. subst out surv. rewrite run_steps_attach.
  pose proof (run_steps_i_labels G L ss items k H) as HS.
  set (sv := run_steps_i G L ss items) in *.
  repeat split.
  - rewrite map_map. apply map_ext_in. intros it Hin. rewrite Forall_forall in HS.
    apply strip_attach. apply HS. exact Hin.
  - rewrite map_map. apply map_ext_in. intros it Hin. rewrite Forall_forall in HS.
    apply labels_attach. apply HS. exact Hin.
  - rewrite !map_length. reflexivity.
Qed.

(* survivors keep their relative input order: a filter/map pipeline returns a subsequence *)
Inductive subseq {A} : list A -> list A -> Prop :=
| sub_nil : subseq [] []
| sub_keep x l l' : subseq l l' -> subseq (x :: l) (x :: l')
| sub_drop x l l' : subseq l l' -> subseq l (x :: l').

Lemma filter_subseq {A} (f : A -> bool) l : subseq (filter f l) l.
Proof. induction l as [|x tl IH]; cbn; [constructor|]. destruct (f x); constructor; exact IH. Qed.

(* the label part (inline fields, declared labels) of the survivors is a subsequence of the inputs' *)
Theorem order_preserved (ss : list (step G)) : forall (items : list (item G L)),
  subseq (map (fun it => (snd (fst it), snd it)) (run_steps_i G L ss items))
         (map (fun it => (snd (fst it), snd it)) items).
Proof.
  induction ss as [|s tl IH]; intros items; cbn.
  - induction items; cbn; constructor; assumption.
  - assert (T : forall a b c : list (list L * list L), subseq a b -> subseq b c -> subseq a c).
    { intros a b c H1 H2. revert a H1. induction H2; intros a H1.
      - exact H1.
      - inversion H1; subst; constructor; auto.
      - constructor. auto. }
    eapply T; [apply IH|].
    destruct s as [f|keep].
    + assert (E : map (fun it : G * list L * list L => (snd (fst it), snd it)) (run_step_i G L (SMap G f) items) =
                  map (fun it : G * list L * list L => (snd (fst it), snd it)) items).
      { induction items as [|[[g t0] ls] tl' IH']; cbn; [reflexivity|]. cbn in IH'. rewrite IH'. reflexivity. }
      rewrite E. clear E. induction items; cbn; constructor; assumption.
    + cbn. induction items as [|[[g t0] ls] tl' IH']; cbn; [constructor|].
      destruct (keep g); cbn; constructor; exact IH'.
Qed.

End Thm.
