(* CropWin.v -- the crop windows computed by the generated coordinate helpers lie inside the
   volume and have exactly the requested size, for EVERY draw u in [0,1). *)
From Coq Require Import ZArith QArith List Bool Lia Lqa.
From DV.lib Require Import PyNum PyRt.
From DV.gen Require Import Gen_crops_functional.
From DV.proofs Require Import Tac.
Open Scope Q_scope.

(* int((n - k + 1) * u) is in [0, n - k] when 0 <= u < 1 and k <= n *)
Lemma start_in_range (n k : Z) (e u : Q) : e == inject_Z (n - k + 1) ->
  (0 < k)%Z -> (k <= n)%Z -> 0 <= u -> u < 1 -> (0 <= py_int (e * u) <= n - k)%Z.
Proof.
  intros E Hk Hn U0 U1.
  assert (P : 0 < e) by (rewrite E; apply Zpos_inject_pos; lia).
  assert (A : 0 <= e * u) by (apply Qmult_le_0_compat; lra).
  assert (B : e * u < e).
  { rewrite <- (Qmult_1_r e) at 2. apply Qmult_lt_l; assumption. }
  split.
  - apply py_int_nonneg_ge0. exact A.
  - destruct (py_int_nonneg _ A) as [L _].
    assert (F : inject_Z (py_int (e * u)) < inject_Z (n - k + 1)) by (rewrite <- E; lra).
    rewrite <- Zlt_Qlt in F. lia.
Qed.

Lemma random_crop_window h w d ch cw cd hs ws ds :
  (0 < ch <= h)%Z -> (0 < cw <= w)%Z -> (0 < cd <= d)%Z ->
  0 <= hs < 1 -> 0 <= ws < 1 -> 0 <= ds < 1 ->
  let '(x1, y1, z1, x2, y2, z2) := get_random_crop_coords h w d ch cw cd hs ws ds in
  (0 <= x1 /\ x2 = x1 + cw /\ x2 <= w /\ 0 <= y1 /\ y2 = y1 + ch /\ y2 <= h /\
   0 <= z1 /\ z2 = z1 + cd /\ z2 <= d)%Z.
Proof.
  intros [A1 A2] [B1 B2] [C1 C2] [H1 H2] [W1 W2] [D1 D2].
  unfold get_random_crop_coords. cbn.
  assert (E : forall n k, inject_Z n - inject_Z k + 1 == inject_Z (n - k + 1)) by (intros; push_inj; reflexivity).
  pose proof (start_in_range h ch _ hs (E h ch) A1 A2 H1 H2).
  pose proof (start_in_range w cw _ ws (E w cw) B1 B2 W1 W2).
  pose proof (start_in_range d cd _ ds (E d cd) C1 C2 D1 D2).
  repeat split; lia.
Qed.

Lemma center_crop_window h w d ch cw cd :
  (0 < ch <= h)%Z -> (0 < cw <= w)%Z -> (0 < cd <= d)%Z ->
  let '(x1, y1, z1, x2, y2, z2) := get_center_crop_coords h w d ch cw cd in
  (x1 = (w - cw) / 2 /\ x2 = x1 + cw /\ 0 <= x1 /\ x2 <= w /\
   y1 = (h - ch) / 2 /\ y2 = y1 + ch /\ 0 <= y1 /\ y2 <= h /\
   z1 = (d - cd) / 2 /\ z2 = z1 + cd /\ 0 <= z1 /\ z2 <= d)%Z.
Proof.
  intros [A1 A2] [B1 B2] [C1 C2]. unfold get_center_crop_coords. cbn.
  pose proof (Z.div_pos (w - cw) 2). pose proof (Z.div_pos (h - ch) 2). pose proof (Z.div_pos (d - cd) 2).
  pose proof (Z.div_le_upper_bound (w - cw) 2 (w - cw)).
  pose proof (Z.div_le_upper_bound (h - ch) 2 (h - ch)).
  pose proof (Z.div_le_upper_bound (d - cd) 2 (d - cd)).
  repeat split; lia.
Qed.
