(* KpFilter.v -- filter_keypoints (generated) keeps exactly the in-frame keypoints, in order. *)
From Coq Require Import ZArith QArith List Bool Lia Lqa.
From DV.lib Require Import PyNum PyRt.
From DV.gen Require Import Gen_keypoints_utils.
From DV.proofs Require Import Tac.
Open Scope Q_scope.

Definition kp_in_frame (r c s : Z) (k : kp) : bool :=
  let '(x, y, z, _, _) := k in
  Qle_bool 0 x && Qlt_bool x (inject_Z c) && Qle_bool 0 y && Qlt_bool y (inject_Z r) &&
  Qle_bool 0 z && Qlt_bool z (inject_Z s).

Lemma filter_keypoints_spec l r c s :
  filter_keypoints l r c s true = filter (kp_in_frame r c s) l /\
  filter_keypoints l r c s false = l.
Proof.
  split; [|reflexivity].
  unfold filter_keypoints. cbn.
  match goal with |- fold_left ?f l [] = _ => set (body := f) end.
  assert (G : forall l acc, fold_left body l acc = acc ++ filter (kp_in_frame r c s) l).
  { clear l. induction l as [|k tl IH]; intros acc; cbn.
    - rewrite app_nil_r. reflexivity.
    - rewrite IH. destruct k as [[[[x y] z] a] sc]. unfold body. cbn. fold body.
      unfold Qlt_bool, Qge_bool.
      destruct (Qle_bool 0 x) eqn:E1, (Qle_bool (inject_Z c) x) eqn:E2,
               (Qle_bool 0 y) eqn:E3, (Qle_bool (inject_Z r) y) eqn:E4,
               (Qle_bool 0 z) eqn:E5, (Qle_bool (inject_Z s) z) eqn:E6; cbn;
      try reflexivity; rewrite <- app_assoc; reflexivity. }
  rewrite G. reflexivity.
Qed.
