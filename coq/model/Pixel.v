(* Pixel.v -- hand-written voxel-level model of the clip-to-dtype wrapper and of the point-wise
   formulas of dicaugment/augmentations/functional.py and utils.py (clipped, clip,
   MAX/MIN_VALUES_BY_DTYPE, gauss_noise, _brightness_contrast_adjust, invert, to_float, from_float,
   Sharpen.__generate_sharpening_matrix).  Real arithmetic is exact (Q); float32 rounding is outside
   the model -- the correspondence run (harness/corr_pixel.py) uses values on which it is exact. *)
From Coq Require Import ZArith QArith Qround List Bool.
Import ListNotations.
From DV.lib Require Import PyNum.
Open Scope Q_scope.

Inductive dtype := U8 | U16 | I16 | I32 | F32 | F64.

Definition f64max : Z := (Z.pow 2 1024 - Z.pow 2 971)%Z.
(* MIN_VALUES_BY_DTYPE / MAX_VALUES_BY_DTYPE *)
Definition lo (d : dtype) : Q :=
  match d with U8 | U16 | F32 => 0 | I16 => inject_Z (-32768) | I32 => inject_Z (-2147483648) | F64 => inject_Z (- f64max) end.
Definition hi (d : dtype) : Q :=
  match d with U8 => 255 | U16 => 65535 | I16 => 32767 | I32 => 2147483647 | F32 => 1 | F64 => inject_Z f64max end.
Definition is_int (d : dtype) : bool := match d with F32 | F64 => false | _ => true end.

(* ndarray.astype(int dtype) of an in-range float: truncation toward zero *)
Definition cast (d : dtype) (q : Q) : Q := if is_int d then inject_Z (py_int q) else q.
(* utils.clip: np.clip(img, minval, maxval).astype(dtype), with the bounds the @clipped wrapper looks up *)
Definition clip_to (d : dtype) (q : Q) : Q := cast d (clip q (lo d) (hi d)).
Definition clipped (f : Q -> Q) (d : dtype) (v : Q) : Q := clip_to d (f v).

Definition gauss_noise_vox (d : dtype) (v g : Q) : Q := clipped (fun x => x + g) d v.

(* _brightness_contrast_adjust with max_brightness given (the mean-based variant reads the whole image) *)
Definition brightness_contrast_vox (d : dtype) (v alpha beta maxb : Q) : Q :=
  clipped (fun x => clip (x * alpha + beta * maxb) (lo d) maxb) d v.

(* invert: MAX - (img + MIN) in the array's own arithmetic (two's complement wrap for integer dtypes) *)
Definition wrap (d : dtype) (z : Z) : Z :=
  match d with
  | U8 => z mod 256 | U16 => z mod 65536
  | I16 => (z + 32768) mod 65536 - 32768
  | I32 => (z + 2147483648) mod 4294967296 - 2147483648
  | _ => z
  end%Z.
Definition invert_int (d : dtype) (v : Z) : Z := wrap d (Qfloor (hi d) - wrap d (v + Qfloor (lo d))).
Definition invert_float (d : dtype) (v : Q) : Q := hi d - (v + lo d).

Definition to_float_vox (d : dtype) (v : Q) : Q := (v - lo d) / (hi d - lo d).
Definition from_float_vox (d : dtype) (q : Q) : Q := cast d (q * (hi d - lo d) + lo d).

(* Sharpen kernel 3x3x3 (row-major), alpha and lightness sampled *)
Definition sharpen_kernel (a l : Q) : list Q :=
  map (fun i => if Nat.eqb i 13 then (1 - a) * 1 + a * (26 + l) else (1 - a) * 0 + a * (-1)) (seq 0 27).
Definition qsum (l : list Q) : Q := fold_right Qplus 0 l.
