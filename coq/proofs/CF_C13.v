(* class-table facts used by C13; proved by computation over the regenerated tables *)
From Coq Require Import List String Bool.
Import ListNotations.
From DV.gen Require Import Gen_classtab.
From DV.proofs Require Import ClassFacts.
Open Scope string_scope.

Lemma draws_inside_partial :
  forallb (fun c => draws_inside_ok c || mem (c_name c) c13_known) class_table = true.
Proof. vm_compute. reflexivity. Qed.

Lemma record_ok :
  forallb record_row_ok record_table = true /\
  forallb todict_row_ok (filter is_params_row todict_table) = true /\
  Nat.eqb (List.length (filter is_params_row todict_table)) 3 = true /\ Nat.eqb (List.length record_table) 2 = true /\
  compose_record_complete = true.
Proof. vm_compute. repeat split; reflexivity. Qed.
