(* Fw.v -- lemmas about the scheduling model (Framework.run). *)
From Coq Require Import List QArith Bool Arith Lia.
Import ListNotations.
From DV.model Require Import Framework.
Open Scope Q_scope.

Section Lemmas.
Variable data : Type.
Variable sem : nat -> data -> data.

Notation run := (run data sem).
Notation state := (state data).

Lemma then_some (r : option state) k d tr ds :
  then_ data r k = Some (d, tr, ds) ->
  exists d1 tr1 ds1 tr2, r = Some (d1, tr1, ds1) /\ k d1 ds1 = Some (d, tr2, ds) /\ tr = tr1 ++ tr2.
Proof.
  unfold then_. destruct r as [[[d1 tr1] ds1]|]; [|discriminate].
  destruct (k d1 ds1) as [[[d2 tr2] ds2]|] eqn:E; [|discriminate].
  intros H. inversion H; subst. exists d1, tr1, ds1, tr2. auto.
Qed.

(* A pipeline in which no leaf fires returns the data it was given. *)
Definition nofire_id_stmt (t : node) : Prop :=
  forall force d ds d' ds', run t force d ds = Some (d', [], ds') -> d' = d.

Lemma fire_always_nofire ls d ds d' ds' :
  fire_always data sem ls d ds = Some (d', [], ds') -> d' = d.
Proof.
  destruct ls as [|[id p a| | | | | ] r]; cbn; intros H; try discriminate.
  - inversion H; reflexivity.
  - destruct ds as [|[u|l] ds0]; try discriminate.
    destruct (fire_always data sem r (sem id d) ds0) as [[[d2 tr2] ds2]|]; discriminate.
Qed.

(* generic facts about the helper combinators, for any child semantics [rk] *)
Section Helpers.
Variable rk : node -> bool -> data -> list draw -> option state.

Lemma seq_with_nofire l :
  (forall k, In k l -> forall f d ds d' ds', rk k f d ds = Some (d', [], ds') -> d' = d) ->
  forall d ds d' ds', seq_with data rk l d ds = Some (d', [], ds') -> d' = d.
Proof.
  induction l as [|k tl IHl]; intros Hk d ds d' ds' H; cbn in H.
  - inversion H; reflexivity.
  - apply then_some in H. destruct H as (d1 & tr1 & ds1 & tr2 & E & F & T).
    symmetry in T. apply app_eq_nil in T. destruct T; subst.
    apply (Hk k (or_introl eq_refl)) in E. subst d1.
    apply IHl in F; [exact F|]. intros k' Hin. apply Hk. right. exact Hin.
Qed.

Lemma pick_with_nofire l :
  (forall k, In k l -> forall f d ds d' ds', rk k f d ds = Some (d', [], ds') -> d' = d) ->
  forall i d ds d' ds', pick_with data rk l i d ds = Some (d', [], ds') -> d' = d.
Proof.
  induction l as [|k tl IHl]; intros Hk i d ds d' ds' H; cbn in H.
  - destruct i; discriminate.
  - destruct i as [|j].
    + apply (Hk k (or_introl eq_refl)) in H. exact H.
    + apply IHl in H; [exact H|]. intros k' Hin. apply Hk. right. exact Hin.
Qed.

Lemma picks_with_nofire l :
  (forall k, In k l -> forall f d ds d' ds', rk k f d ds = Some (d', [], ds') -> d' = d) ->
  forall idx d ds d' ds', picks_with data rk l idx d ds = Some (d', [], ds') -> d' = d.
Proof.
  intros Hk. induction idx as [|i tl IHi]; intros d ds d' ds' H; cbn in H.
  - inversion H; reflexivity.
  - apply then_some in H. destruct H as (d1 & tr1 & ds1 & tr2 & E & F & T).
    symmetry in T. apply app_eq_nil in T. destruct T; subst.
    apply (pick_with_nofire l Hk) in E. subst d1. apply IHi in F. exact F.
Qed.
End Helpers.

Lemma node_ind' (P : node -> Prop) :
  (forall id p a, P (Leaf id p a)) ->
  (forall p kids, Forall P kids -> P (Comp p kids)) ->
  (forall p kids, Forall P kids -> P (OneOfN p kids)) ->
  (forall p n r kids, Forall P kids -> P (SomeOfN p n r kids)) ->
  (forall p kids, Forall P kids -> P (OneOrOtherN p kids)) ->
  (forall p kids, Forall P kids -> P (SeqN p kids)) ->
  forall t, P t.
Proof.
  intros HL HC HO HS HOO HSeq.
  fix IH 1. intros t.
  assert (FA : forall l, Forall P l).
  { induction l as [|k tl IHl]; constructor; [apply IH | exact IHl]. }
  destruct t; [apply HL | apply HC | apply HO | apply HS | apply HOO | apply HSeq]; apply FA.
Qed.

Theorem nofire_identity : forall t, nofire_id_stmt t.
Proof.
  induction t as [id p a | p kids IH | p kids IH | p n r kids IH | p kids IH | p kids IH] using node_ind';
  unfold nofire_id_stmt; intros force d ds d' ds' H; cbn in H;
  try (assert (IH' : forall k, In k kids -> forall f d ds d' ds',
               (fun k f d ds => run k f d ds) k f d ds = Some (d', [], ds') -> d' = d)
        by (rewrite Forall_forall in IH; intros k Hin f d0 ds0 d0' ds0' H0;
            exact (IH k Hin f d0 ds0 d0' ds0' H0)); clear IH).
  - destruct ds as [|[u|l] ds0]; try discriminate.
    destruct (Qltb u p || a || force); inversion H; reflexivity.
  - destruct force.
    + eapply seq_with_nofire; [exact IH' | exact H].
    + destruct ds as [|[u|l] ds0]; try discriminate.
      destruct (Qltb u p).
      * eapply seq_with_nofire; [exact IH' | exact H].
      * apply fire_always_nofire in H. exact H.
  - destruct kids as [|k0 tl]; [inversion H; reflexivity|].
    destruct force.
    + destruct ds as [|[u|[|i [|]]] ds1]; try discriminate.
      eapply pick_with_nofire; [exact IH' | exact H].
    + destruct ds as [|[u|l] ds0]; try discriminate.
      destruct (Qltb u p); [|inversion H; reflexivity].
      destruct ds0 as [|[u'|[|i [|]]] ds1]; try discriminate.
      eapply pick_with_nofire; [exact IH' | exact H].
  - destruct kids as [|k0 tl]; [inversion H; reflexivity|].
    destruct force.
    + destruct ds as [|[u|idx] ds1]; try discriminate.
      destruct (Nat.eqb (length idx) n); [|discriminate].
      eapply picks_with_nofire; [exact IH' | exact H].
    + destruct ds as [|[u|l] ds0]; try discriminate.
      destruct (Qltb u p); [|inversion H; reflexivity].
      destruct ds0 as [|[u'|idx] ds1]; try discriminate.
      destruct (Nat.eqb (length idx) n); [|discriminate].
      eapply picks_with_nofire; [exact IH' | exact H].
  - destruct ds as [|[u|l] ds0]; try discriminate.
    destruct (Qltb u p); eapply pick_with_nofire; try exact IH'; exact H.
  - destruct kids as [|k tl]; [inversion H; reflexivity|].
    apply then_some in H. destruct H as (d1 & tr1 & ds1 & tr2 & E & F & T).
    symmetry in T. apply app_eq_nil in T. destruct T; subst.
    apply (IH' k (or_introl eq_refl)) in E. subst d1.
    eapply seq_with_nofire; [|exact F]. intros k' Hin. apply IH'. right. exact Hin.
Qed.

End Lemmas.
