(* C10 -- converting a valid box to the internal representation and back is the identity. *)
From DV.lib Require Import PyNum PyRt.
From DV.gen Require Import Gen_bbox_utils.
From DV.proofs Require Import Tac Conv.
From Coq Require Import Lqa Lia.
Open Scope Q_scope.

Definition box_formats : list string := ["coco_3d"%string; "pascal_voc_3d"%string; "yolo_3d"%string].

(* If the input conversion accepts the box (i.e. it is a valid box in that format for
   that frame), the output conversion returns it unchanged. check_validity is what
   BboxProcessor passes (True) -- any value of the flag works for the way back. *)
Lemma bbox_roundtrip fmt b r c s n :
  In fmt box_formats ->
  convert_bbox_to_dicaugment b fmt r c s true = Ok n ->
  exists b', convert_bbox_from_dicaugment n fmt r c s true = Ok b' /\ box_eq b' b.
Proof.
  intros Hf H. unfold box_formats in Hf. destruct_box b.
  in_cases Hf; unfold convert_bbox_to_dicaugment in H; cbn in H.
  - (* coco *)
    res_inv.
    match goal with H : normalize_bbox _ _ _ _ = Ok _ |- _ =>
      apply normalize_bbox_ok_inv in H; destruct H as (Pr & Pc & Ps & ->) end.
    match goal with H : context [check_bbox ?x] |- _ => destruct (check_bbox x) eqn:Ck; cbn in H; res_inv end.
    unfold convert_bbox_from_dicaugment; cbn. rewrite Ck; cbn.
    rewrite denormalize_bbox_ok by assumption. cbn.
    eexists; split; [reflexivity|].
    pose proof (Zpos_inject_nonzero r Pr). pose proof (Zpos_inject_nonzero c Pc).
    pose proof (Zpos_inject_nonzero s Ps). unfold denorm_box, norm_box, box_eq. cbn.
    repeat split; field; assumption.
  - (* pascal *)
    res_inv.
    match goal with H : normalize_bbox _ _ _ _ = Ok _ |- _ =>
      apply normalize_bbox_ok_inv in H; destruct H as (Pr & Pc & Ps & ->) end.
    match goal with H : context [check_bbox ?x] |- _ => destruct (check_bbox x) eqn:Ck; cbn in H; res_inv end.
    unfold convert_bbox_from_dicaugment; cbn. rewrite Ck; cbn.
    rewrite denormalize_bbox_ok by assumption. cbn.
    eexists; split; [reflexivity|].
    pose proof (Zpos_inject_nonzero r Pr). pose proof (Zpos_inject_nonzero c Pc).
    pose proof (Zpos_inject_nonzero s Ps). unfold denorm_box, norm_box, box_eq. cbn.
    repeat split; field; assumption.
  - (* yolo: no normalisation *)
    match type of H with context [if ?g then Raise ValueError else _] => destruct g; cbn in H; [discriminate|] end.
    res_inv.
    match goal with H : context [check_bbox ?x] |- _ => destruct (check_bbox x) eqn:Ck; cbn in H; res_inv end.
    unfold convert_bbox_from_dicaugment; cbn. rewrite Ck; cbn.
    eexists; split; [reflexivity|]. unfold box_eq. repeat split; field.
Qed.

(* the internal format itself: check only, data untouched (DataProcessor.check_and_convert) *)

(* non-vacuity: a concrete valid box in a non-cubic frame is accepted *)
Example roundtrip_premise_example :
  is_ok (convert_bbox_to_dicaugment (1, 2, 3, 4, 5, 6) "pascal_voc_3d" 7 9 11 true) = true /\
  is_ok (convert_bbox_to_dicaugment (1, 2, 3, 3, 3, 3) "coco_3d" 7 9 11 true) = true /\
  is_ok (convert_bbox_to_dicaugment (1#2, 1#2, 1#2, 1#4, 1#4, 1#4) "yolo_3d" 7 9 11 true) = true.
Proof. repeat split; vm_compute; reflexivity. Qed.
